----------------------------- MODULE UndoStack -----------------------------
(* C41: undo / redo / op restore / op revert.                               *)
(*                                                                          *)
(* Two levels, kept apart (DESIGN 2.3):                                     *)
(*  - the ABSTRACT level is the contract: an editor-style undo stack of     *)
(*    repository views (past, cur, future).  A view is named by a natural   *)
(*    number: the index, in the operation log, of the operation that first  *)
(*    produced it.  What C41 demands of any implementation is that after    *)
(*    each command the view of the head operation is the abstract `cur`.    *)
(*  - the IMPLEMENTATION level is a reference transcription of the          *)
(*    description-based algorithm of cli/src/commands/undo.rs and redo.rs   *)
(*    (operations described "undo: restore to operation X" /                *)
(*    "redo: restore to operation X", with the two parent jumps) and of     *)
(*    operation/restore.rs, operation/revert.rs on a linear operation log.  *)
(* MC_UndoStack shows that the second refines the first for all command     *)
(* words up to a bound; Trace_UndoStack judges recorded CLI sessions with   *)
(* the abstract level only and reports differences from the transcription   *)
(* as divergence.                                                           *)
EXTENDS Naturals, Sequences, FiniteSets

(* ---- commands ---------------------------------------------------------- *)
(* [a |-> "op"]            any ordinary command that commits one operation  *)
(*                         with a fresh view (a snapshot operation is one)  *)
(* [a |-> "undo"], [a |-> "redo"]                                           *)
(* [a |-> "restore", k |-> i]   jj op restore <operation number i>          *)
(* [a |-> "revert"]             jj op revert @  (the latest operation)      *)

(* ---- abstract level ---------------------------------------------------- *)
(* st = [past, cur, future, n]; n = number of operations in the log so far, *)
(* so a fresh view gets the name n + 1.                                     *)
Front(s) == SubSeq(s, 1, Len(s) - 1)
Last(s) == s[Len(s)]

AbsInit(k) ==  \* a log of k operations, each with a fresh view: root, init, setup...
  [past |-> [i \in 1..(k - 1) |-> i], cur |-> k, future |-> <<>>, n |-> k]

AbsCanUndo(st) == st.past # <<>>
AbsCanRedo(st) == st.future # <<>>

(* An ordinary operation whose view is v.  A transaction that does not     *)
(* change the view is not committed ("Nothing changed."): no operation, no  *)
(* change to the stack.                                                     *)
AbsPush(st, v) ==
  IF v = st.cur THEN st
  ELSE [past |-> Append(st.past, st.cur), cur |-> v, future |-> <<>>, n |-> st.n + 1]

(* views[i] = view of operation i; needed for restore / revert, whose       *)
(* target is named by the operation, not by the stack                       *)
AbsStep(st, c, views) ==
  IF c.a = "op" THEN AbsPush(st, st.n + 1)
  ELSE IF c.a = "undo" THEN
    IF AbsCanUndo(st)
    THEN [past |-> Front(st.past), cur |-> Last(st.past), future |-> <<st.cur>> \o st.future, n |-> st.n + 1]
    ELSE st
  ELSE IF c.a = "redo" THEN
    IF AbsCanRedo(st)
    THEN [past |-> Append(st.past, st.cur), cur |-> Head(st.future), future |-> Tail(st.future), n |-> st.n + 1]
    ELSE st
  ELSE IF c.a = "restore" THEN AbsPush(st, views[c.k])
  ELSE (* revert of the latest operation: the view of its parent operation *)
    IF st.n >= 2 THEN AbsPush(st, views[st.n - 1]) ELSE st

AbsOk(st, c) ==     \* does the command succeed
  IF c.a = "undo" THEN AbsCanUndo(st)
  ELSE IF c.a = "redo" THEN AbsCanRedo(st)
  ELSE IF c.a = "revert" THEN st.n >= 2
  ELSE TRUE

(* ---- implementation level (reference transcription) -------------------- *)
(* log: sequence of operations [kind, par, tgt, view]; the log is linear:   *)
(* par = index - 1 (0 for the root operation).  kind "undo"/"redo" carry    *)
(* tgt = the operation whose view was restored (what the description says). *)
RootOp == [kind |-> "root", par |-> 0, tgt |-> 0, view |-> 1]
NormalOp(log, v) == [kind |-> "op", par |-> Len(log), tgt |-> 0, view |-> v]

ImplInit(k) == [i \in 1..k |-> IF i = 1 THEN RootOp
                                ELSE [kind |-> "op", par |-> i - 1, tgt |-> 0, view |-> i]]

(* cmd_undo: Bug parameter seeds design bugs for the negative configs *)
UndoTarget(log, bug) ==
  LET h == Len(log) IN
  IF log[h].kind = "undo" /\ bug # "undo_no_jump" THEN log[h].tgt ELSE h
ImplCanUndo(log, bug) == log[UndoTarget(log, bug)].par # 0
UndoRestoreTo(log, bug) ==
  LET p0 == log[UndoTarget(log, bug)].par IN
  IF log[p0].kind = "undo" /\ bug # "undo_no_collapse" THEN log[p0].tgt ELSE p0

(* cmd_redo *)
RedoTarget(log, bug) ==
  LET h == Len(log) IN
  IF log[h].kind = "redo" /\ bug # "redo_no_jump" THEN log[h].tgt ELSE h
ImplCanRedo(log, bug) ==
  bug = "redo_any" \/ log[RedoTarget(log, bug)].kind = "undo"
RedoRestoreTo(log, bug) ==
  LET p0 == log[RedoTarget(log, bug)].par IN
  IF p0 = 0 THEN 1
  ELSE IF log[p0].kind = "redo" THEN log[p0].tgt ELSE p0

ImplOk(log, c, bug) ==
  IF c.a = "undo" THEN ImplCanUndo(log, bug)
  ELSE IF c.a = "redo" THEN ImplCanRedo(log, bug)
  ELSE IF c.a = "revert" THEN Len(log) >= 2
  ELSE TRUE

ImplStep(log, c, bug) ==
  IF ~ImplOk(log, c, bug) THEN log
  ELSE IF c.a = "op" THEN Append(log, NormalOp(log, Len(log) + 1))
  ELSE IF c.a = "undo" THEN
    LET t == UndoRestoreTo(log, bug) IN
    Append(log, [kind |-> "undo", par |-> Len(log), tgt |-> t, view |-> log[t].view])
  ELSE IF c.a = "redo" THEN
    LET t == RedoRestoreTo(log, bug) IN
    Append(log, [kind |-> "redo", par |-> Len(log), tgt |-> t, view |-> log[t].view])
  ELSE IF c.a = "restore" THEN
    IF log[c.k].view = log[Len(log)].view THEN log ELSE Append(log, NormalOp(log, log[c.k].view))
  ELSE IF log[Len(log) - 1].view = log[Len(log)].view THEN log
  ELSE Append(log, NormalOp(log, log[Len(log) - 1].view))

Views(log) == [i \in 1..Len(log) |-> log[i].view]

(* ---- contracts --------------------------------------------------------- *)
(* the view of the head operation is the abstract current view, the number  *)
(* of operations agrees, and a command fails exactly when the stack says so *)
Refines(st, log) == /\ log[Len(log)].view = st.cur
                    /\ Len(log) = st.n
StepOK(st, c, okObserved, viewObserved, views) ==
  LET st2 == AbsStep(st, c, views) IN
  /\ okObserved = AbsOk(st, c)
  /\ viewObserved = st2.cur
=============================================================================
