SPECIFICATION Spec
CONSTANTS
  Mode = "alias"
  MaxSent = 0
  Samples = 0
  SampleLen = 0
  MaxDerive = 0
  Bug = "none"
  Emit = FALSE
INVARIANTS InvStack InvOutcome InvStatic InvDerive EmitInv
CHECK_DEADLOCK FALSE
