SPECIFICATION Spec
CONSTANTS
  Paths <- StdPaths
  PathOrder <- StdPathOrder
  IgnoreVocab <- StdIgnoreVocab
  Bug = "snap-tracked-nonfile"
  MaxSteps = 5
  MaxEditRun = 3
  Acts = {"Write", "Delete", "Mkfifo", "FileToDir", "DirToFile", "RmTree", "Snapshot", "CheckOut"}
  EditPaths <- InsideIgnoredPaths
  Contents = {2}
  SymTargets = {"out"}
  RootIgnore = {}
  DirIgnore = {}
  TreeIds = {11, 12}
  SparseIds = {}
  XP = "respect"
  Strict = "none"
  Emit = FALSE
INVARIANTS Inv_C23
VIEW View
CHECK_DEADLOCK FALSE
