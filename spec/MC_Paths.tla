------------------------------ MODULE MC_Paths ------------------------------
(* Design-level check and S->I generator for C32: every input of at most   *)
(* MaxLen tokens, relative and absolute, from every cwd of Cwds, and every *)
(* repository path of at most MaxLen tokens.                               *)
EXTENDS Paths, TLC, Json

CONSTANTS MaxLen, Bug, Emit

MC_Base == <<"a">>
MC_Base2 == <<"ab", "a">>
(* inside the workspace at depth 0-2, its parent, a sibling whose name has  *)
(* the workspace name as a string prefix, and the file-system root          *)
Cwds == { Base, Base \o <<"a">>, Base \o <<"a", "ab">>, Base \o <<"uu">>,
          Front(Base), Front(Base) \o <<"ab">>, <<>> }

VARIABLES cwd, abs, toks       \* abs = "repo": toks is a repository path (cwd still varies: round trip)

Init == /\ cwd \in Cwds /\ abs \in {"rel", "abs", "repo"} /\ toks = <<>>
Next == /\ Len(toks) < MaxLen
        /\ \E t \in Tokens : toks' = Append(toks, t)
        /\ UNCHANGED <<cwd, abs>>
Spec == Init /\ [][Next]_<<cwd, abs, toks>>

(* seeded design bugs *)
BugNormalize(ts) ==               \* ".." is dropped instead of popping
  SelectSeq(Components(ts), LAMBDA t : t # "..")
StrPrefixOf(a, b) == a = b \/ (a = "a" /\ b = "ab")
BugUnderBase(p) ==                \* string prefix test instead of component prefix
  IF Len(Base) <= Len(p) /\ (\A i \in 1..(Len(Base) - 1) : p[i] = Base[i]) /\ StrPrefixOf(Base[Len(Base)], p[Len(Base)])
       /\ AllNormal(Rest(p, Len(Base)))
  THEN Ok(Rest(p, Len(Base))) ELSE Err
TheParse(c, a, ts) ==
  IF Bug = "nopop" THEN UnderBase(BugNormalize(Joined(c, a, ts)))
  ELSE IF Bug = "strprefix" THEN BugUnderBase(Normalize(Joined(c, a, ts)))
  ELSE RefParse(c, a, ts)
TheToFs(p) == IF Bug = "unchecked" THEN Ok(Base \o p) ELSE RefToFs(p)

IsInput == abs \in {"rel", "abs"}
InvParse == IsInput => ParseOK(cwd, abs = "abs", toks, TheParse(cwd, abs = "abs", toks))
InvToFs == ~IsInput /\ (\A i \in 1..Len(toks) : toks[i] # "") => ToFsOK(toks, TheToFs(toks))
InvRoundTrip ==
  (~IsInput /\ AllNormal(toks)) =>
     LET f == TheToFs(toks) IN
       /\ f.ok
       /\ RoundTripOK(toks, TheParse(cwd, TRUE, f.out))
       \* UI form: relative to cwd
       /\ RoundTripOK(toks, TheParse(cwd, FALSE, RefRelative(cwd, f.out)))
(* a parsed path is a fixpoint: it parses to itself relative to the root *)
InvIdem == IsInput =>
  LET r == TheParse(cwd, abs = "abs", toks) IN r.ok => TheParse(Base, FALSE, r.out) = r

EmitInv == Emit => PrintT(<<"CASE", ToJson([cwd |-> cwd, kind |-> abs, toks |-> toks])>>)
=============================================================================
