SPECIFICATION MCSpec
CONSTANTS
  Guards = {"G2", "G4", "G5"}
  MaxSteps = 12
INVARIANTS NoCommittedOpLost
CHECK_DEADLOCK FALSE
