SPECIFICATION FairSpec
CONSTANTS
  Procs = {1, 2}
  Final = 0
  NCmds = 1
  LocksWork = FALSE
  MaxCrashes = 1
  Bug = "none"
PROPERTIES EventuallyLoaded
CHECK_DEADLOCK FALSE
