SPECIFICATION Spec
CONSTANTS
  MaxCommits = 8
  MaxOps = 6
  MaxParents = 1
  MaxPerTx = 6
  AllowHide = FALSE
  Shape = "chain"
  Bug = "none"
INVARIANTS InvWellFormed InvGeometric InvSquashKeeps InvMergeComplete InvLevelsRule EmitInv
CHECK_DEADLOCK FALSE
