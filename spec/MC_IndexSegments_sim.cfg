SPECIFICATION Spec
CONSTANTS
  MaxCommits = 6
  MaxOps = 6
  MaxParents = 3
  MaxPerTx = 3
  AllowHide = TRUE
  Shape = "any"
  Bug = "none"
INVARIANTS InvWellFormed InvQueries InvGeometric InvSquashKeeps InvMergeComplete InvLevelsRule InvMemo EmitInv
CHECK_DEADLOCK FALSE
