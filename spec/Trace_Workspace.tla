--------------------------- MODULE Trace_Workspace ---------------------------
(* Judge for recorded CLI sessions (checks/cli_session.py), C40 and C42.    *)
(* One record per executed jj command; the contracts are those of           *)
(* spec/Workspace.tla, evaluated on the recorded projections:               *)
(*   cmd record: pre/post  disk digest per workspace                        *)
(*               rec_pre/rec  digests of the trees of the workspace's       *)
(*                       working-copy commit over all operations reachable  *)
(*                       from the operation heads, before/after             *)
(*               wcs_pre/wcs_post  <<operation, tree digest>> of the        *)
(*                       working-copy state file                            *)
(*               atop    the command ran with --at-op / --ignore-working-copy *)
(*               nsnap   snapshot operations the command added              *)
(*   imm record: imm_before   commit ids jj itself lists for immutable()    *)
(*                       in the view the command started from               *)
(*               visible_before  ids of all commits visible in that view    *)
(*               visible_after  ids of all commits visible afterwards       *)
(*               exempt  the command restores an operation's view           *)
(*                       (undo, redo, op restore, op revert)                *)
EXTENDS WorkspaceContracts, Naturals, Sequences, Json, IOUtils, TLC

Rec == ndJsonDeserialize(IOEnv.TRACE)

VARIABLE l

ToSet(s) == {s[i] : i \in 1..Len(s)}

CmdVerdict(r) ==
  LET W == ToSet(r.wss) IN
  IF \E w \in W : ~NoLossOK(r.pre[w], r.post[w], ToSet(r.rec[w])) THEN "NoLossOK"
  ELSE IF r.atop /\ ~AtOpOK(r.wcs_pre[r.ws], r.wcs_post[r.ws], r.pre[r.ws], r.post[r.ws], r.nsnap) THEN "AtOpOK"
  ELSE IF \E w \in W : ~RecordedMonotoneOK(ToSet(r.rec_pre[w]), ToSet(r.rec[w])) THEN "RecordedMonotoneOK"
  ELSE "ok"

(* the reference protocol: a command that may touch the working copy snapshots *)
(* exactly when the disk differs from the tree of the working-copy state file  *)
CmdDiverges(r) ==
  /\ ~r.atop /\ r.rc = 0 /\ ~r.absent[r.ws]
  /\ LET dirty == r.pre[r.ws] # r.wcs_pre[r.ws][2] IN
       (dirty /\ r.nsnap = 0) \/ (~dirty /\ r.nsnap > 0)

Verdict(r) ==
  IF r.op \in {"reset", "config"} THEN "ok"
  ELSE IF r.op = "panic" THEN "Panic"
  ELSE IF r.op = "cmd" THEN CmdVerdict(r)
  ELSE IF r.op = "imm" THEN
       (* as in Workspace.tla (SeeImmutable): the protected set is Immutable(view) \cap Visible(view);  *)
       (* `immutable()` also lists hidden commits that a tag or bookmark still names                  *)
       IF r.exempt \/ ImmutableKeptOK(ToSet(r.imm_before) \cap ToSet(r.visible_before), ToSet(r.visible_after)) THEN "ok"
       ELSE "ImmutableKeptOK"
  ELSE "harness:unknown-op"

Init == l = 1
Next ==
  \/ /\ l <= Len(Rec)
     /\ LET v == Verdict(Rec[l]) IN
          /\ (IF v = "ok" THEN TRUE ELSE PrintT(<<"BAD", l, v>>))
          /\ (IF Rec[l].op = "cmd" /\ CmdDiverges(Rec[l]) THEN PrintT(<<"DIVERGES", l>>) ELSE TRUE)
     /\ l' = l + 1
  \/ /\ l = Len(Rec) + 1
     /\ PrintT(<<"JUDGED", Len(Rec)>>)
     /\ l' = l + 1
TraceSpec == Init /\ [][Next]_l
=============================================================================
