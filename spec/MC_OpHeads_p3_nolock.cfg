SPECIFICATION MCSpec
CONSTANTS
  Procs = {1, 2, 3}
  Final = 0
  NCmds = 1
  LocksWork = FALSE
  MaxCrashes = 1
  Bug = "none"
INVARIANTS NonEmptyHeads PublishedReachable HeadsExist NoFailure FinalOK
CHECK_DEADLOCK FALSE
