SPECIFICATION Spec
CONSTANTS
  MaxLen = 3
  MaxPair = 2
  Bug = "looseident"
  Emit = FALSE
INVARIANTS InvRoundTrip InvSymbol InvPair EmitInv
CHECK_DEADLOCK FALSE
