SPECIFICATION Spec
CONSTANTS
  MaxCommits = 3
  MaxTokens = 2
  SubDomains = FALSE
  OrderedParents = FALSE
  Bug = "droplast"
  Emit = FALSE
  RequireMerge = FALSE
INVARIANTS InvWalkMeetsContract InvWalkIsBlame EmitInv
CHECK_DEADLOCK FALSE
