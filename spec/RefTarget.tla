----------------------------- MODULE RefTarget -----------------------------
(* Bookmark / tag targets and their three-way merge (lib/src/refs.rs).      *)
(*                                                                          *)
(* A target is a Merge (MergeAlgebra) over  Commit \cup {Absent}.  Commits  *)
(* are the positive integers in DOMAIN par (Dag), Absent is 0.              *)
(*                                                                          *)
(*   REFERENCE TRANSCRIPTION  MergeRefTargets = merge_ref_targets:          *)
(*     trivial 3-way on whole targets -> flatten + simplify -> trivial on   *)
(*     the terms -> the find_pair_to_remove / swap_remove loop.             *)
(*   CONTRACT  RefMergeOK: property C12.  Only the contract judges.         *)
EXTENDS MergeAlgebra, Dag

Absent == 0
IsTarget(par, t) == IsMerge(t) /\ \A i \in 1..Len(t) : t[i] = Absent \/ t[i] \in Nodes(par)
Resolved(t) == Len(t) = 1
Normal(t)   == Len(t) = 1 /\ t[1] # Absent
Ids(t)      == Vals(t) \ {Absent}
Adds(t)     == {t[i] : i \in AddPos(t)}
AddIds(t)   == Adds(t) \ {Absent}

---------------------------------------------------------------------------
(* trivial_merge(.., SameChange::Accept) on the terms of one merge:         *)
(* <<v>> when it resolves to v (v may be Absent), <<>> when it does not.    *)
TrivSeq(m) ==
  IF Len(m) = 1 THEN <<m[1]>>
  ELSE IF Len(m) = 3 THEN
         IF m[1] = m[3] THEN <<m[1]>>
         ELSE IF m[1] = m[2] THEN <<m[3]>>
         ELSE IF m[3] = m[2] THEN <<m[1]>>
         ELSE <<>>
  ELSE LET nz == NonZero(m) IN
         IF Cardinality(nz) = 1 THEN <<CHOOSE v \in nz : TRUE>>
         ELSE IF Cardinality(nz) = 2 THEN <<CHOOSE v \in nz : Count(m, v) > 0>>
         ELSE <<>>

(* Vec::swap_remove at 1-based position p *)
SwapRemoveAt(s, p) ==
  LET n == Len(s) IN
  IF p = n THEN SubSeq(s, 1, n - 1)
  ELSE [i \in 1..(n - 1) |-> IF i = p THEN s[n] ELSE s[i]]
(* Merge::swap_remove(remove_index, add_index), 1-based term indexes: the   *)
(* add goes first, then the remove in the shortened vector.                 *)
SwapRemove(m, r, a) == SwapRemoveAt(SwapRemoveAt(m, 2 * a - 1), 2 * r)

NumAdds(m) == (Len(m) + 1) \div 2
(* which add of the pair (i < j) is the candidate for removal; 0 = none     *)
PairCand(par, m, i, j) ==
  LET x == m[2 * i - 1]  y == m[2 * j - 1] IN
  IF x = Absent \/ y = Absent THEN 0
  ELSE IF x = y THEN i
  ELSE IF IsAncestor(par, x, y) THEN i
  ELSE IF IsAncestor(par, y, x) THEN j
  ELSE 0
(* removes that may go with candidate commit c: absent, or an ancestor of c *)
RemFor(par, m, c) ==
  {r \in 1..(NumAdds(m) - 1) : m[2 * r] = Absent \/ IsAncestor(par, m[2 * r], c)}
(* find_pair_to_remove: first pair (lexicographic) with a removable remove  *)
FindPair(par, m) ==
  LET k  == NumAdds(m)
      ok == {p \in (1..k) \X (1..k) :
               /\ p[1] < p[2]
               /\ PairCand(par, m, p[1], p[2]) # 0
               /\ RemFor(par, m, m[2 * PairCand(par, m, p[1], p[2]) - 1]) # {}}
  IN IF ok = {} THEN <<>>
     ELSE LET p == CHOOSE p \in ok : \A q \in ok : p[1] < q[1] \/ (p[1] = q[1] /\ p[2] <= q[2])
              a == PairCand(par, m, p[1], p[2])
          IN <<Min(RemFor(par, m, m[2 * a - 1])), a>>

RECURSIVE NonTrivial(_, _)
NonTrivial(par, m) ==
  LET f == FindPair(par, m) IN
  IF f = <<>> THEN m ELSE NonTrivial(par, SwapRemove(m, f[1], f[2]))

MergeRefTargets(par, L, B, R) ==
  IF L = R THEN L
  ELSE IF L = B THEN R
  ELSE IF R = B THEN L
  ELSE LET m == Simplify(Flatten(<<L, B, R>>))
           t == TrivSeq(m)
       IN IF t # <<>> THEN t ELSE NonTrivial(par, m)

---------------------------------------------------------------------------
(* CONTRACT (C12)                                                           *)
TrivialCase(L, B, R) == L = B \/ R = B \/ L = R
(* both sides moved forward along one line of history: B <= X <= Y          *)
FastForward(par, X, B, Y) ==
  /\ Normal(X) /\ Normal(Y) /\ Resolved(B)
  /\ (B[1] = Absent \/ IsAncestor(par, B[1], X[1]))
  /\ IsAncestor(par, X[1], Y[1])
(* ids that survive cancellation in <L - B + R> *)
NetPositiveIds(L, B, R) ==
  LET f == Flatten(<<L, B, R>>) IN {v \in Vals(f) \ {Absent} : Count(f, v) > 0}

RefMergeOK(par, L, B, R, out) ==
  /\ IsMerge(out)
  /\ L = B => out = R                                   \* one side unchanged
  /\ R = B => out = L
  /\ L = R => out = L                                   \* both agree
  /\ FastForward(par, L, B, R) => out = R               \* one line of history
  /\ FastForward(par, R, B, L) => out = L
  /\ Ids(out) \subseteq Ids(L) \cup Ids(B) \cup Ids(R)  \* no invented commit
  /\ ~TrivialCase(L, B, R) =>                           \* no side dropped
       \A v \in NetPositiveIds(L, B, R) :
          v \in AddIds(out) \/ \E a \in AddIds(out) : IsAncestor(par, v, a)
  /\ (Resolved(L) /\ Resolved(B) /\ Resolved(R) /\ Resolved(out)) =>   \* otherwise a conflict
       \/ TrivialCase(L, B, R)
       \/ FastForward(par, L, B, R) \/ FastForward(par, R, B, L)

(* first failing clause, for signatures; "ok" when the contract holds       *)
RefMergeVerdict(par, L, B, R, out) ==
  IF ~IsMerge(out) THEN "RefMergeOK:not-a-merge"
  ELSE IF (L = B /\ out # R) \/ (R = B /\ out # L) THEN "RefMergeOK:unchanged-side"
  ELSE IF L = R /\ out # L THEN "RefMergeOK:both-agree"
  ELSE IF (FastForward(par, L, B, R) /\ out # R) \/ (FastForward(par, R, B, L) /\ out # L)
       THEN "RefMergeOK:fast-forward"
  ELSE IF ~(Ids(out) \subseteq Ids(L) \cup Ids(B) \cup Ids(R)) THEN "RefMergeOK:invented-commit"
  ELSE IF ~RefMergeOK(par, L, B, R, out) THEN
       (IF Resolved(out) THEN "RefMergeOK:picked-a-side" ELSE "RefMergeOK:side-dropped")
  ELSE "ok"
=============================================================================
