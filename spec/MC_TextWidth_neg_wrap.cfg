SPECIFICATION Spec
CONSTANTS
  MaxLen = 3
  MaxWrapLen = 4
  MaxDifferLen = 2
  MaxW = 4
  Kinds = {"wrap"}
  Emit = FALSE
  Bug = "wrap_overfull"
INVARIANTS InvWrap
CHECK_DEADLOCK FALSE
