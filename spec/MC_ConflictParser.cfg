SPECIFICATION Spec
CONSTANTS
  Bug = "none"
  NTexts = 4
INVARIANTS InvPrefix InvOpen InvMonotone InvResult
CHECK_DEADLOCK FALSE
