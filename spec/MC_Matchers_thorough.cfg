SPECIFICATION Spec
CONSTANTS
  Comps = {"a", "ab", "A"}
  MaxDepth = 3
  MaxNest = 2
  Bug = "none"
  Emit = TRUE
  Samples = 0
  EmitMod = 5
INVARIANTS InvVisit EmitInv
CHECK_DEADLOCK FALSE
