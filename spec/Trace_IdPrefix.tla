--------------------------- MODULE Trace_IdPrefix ---------------------------
(* I->S judge for C20.  The trace is a state machine over two kinds of       *)
(* records (jjconf `index prefix`): an "ids" record loads the state of a     *)
(* real repository (all commit ids and change ids as hex digits, the graph,  *)
(* the visible heads, the disambiguation set, the ref names that look like   *)
(* prefixes); the "q" records that follow are what the real code answered in *)
(* that state.  Variable `tab` holds the loaded state.                       *)
EXTENDS IdPrefix, Dag, Json, IOUtils, TLC

Rec == ndJsonDeserialize(IOEnv.TRACE)

VARIABLES l, tab

ToSet(s) == {s[i] : i \in 1..Len(s)}

Load(r) ==
  LET n == r.n
      G == [c \in 0..n |-> IF c = 0 THEN <<>> ELSE r.par[c]]
      D == ToSet(r.dset)
  IN [n |-> n,
      cid |-> [c \in 0..n |-> r.cid[c + 1]],
      chid |-> [c \in 0..n |-> r.chid[c + 1]],
      cids |-> {r.cid[c + 1] : c \in 0..n},
      chids |-> {r.chid[c + 1] : c \in 0..n},
      hasD |-> r.has_d,
      dcids |-> {r.cid[c + 1] : c \in D},
      dchids |-> {r.chid[c + 1] : c \in D},
      vis |-> AncOf(G, ToSet(r.vheads)),
      crefs |-> ToSet(r.crefs),
      chrefs |-> ToSet(r.chrefs),
      distinct |-> Cardinality({r.cid[c + 1] : c \in 0..n}) = n + 1]

(* the logged resolution as a value comparable with Resolve's *)
KindOK(q, want) == q.kind = want[1]

CommitResolveOK(q, want, T) ==
  /\ KindOK(q, want)
  /\ q.kind = "single" => (q.c \in 0..T.n /\ T.cid[q.c] = want[2])

(* a change prefix resolves to the change; its targets: every visible commit *)
(* of the change flagged visible, hidden flagged ones really are hidden      *)
(* commits of the change, nothing twice                                      *)
ChangeResolveOK(q, want, T) ==
  /\ KindOK(q, want)
  /\ q.kind = "single" =>
       LET ch == want[2]
           mine == {c \in 0..T.n : T.chid[c] = ch}
           visOut == {q.t[i][1] : i \in {j \in 1..Len(q.t) : q.t[j][2]}}
           hidOut == {q.t[i][1] : i \in {j \in 1..Len(q.t) : ~q.t[j][2]}}
       IN /\ visOut = mine \cap T.vis
          /\ hidOut \subseteq mine \ T.vis
          /\ \A i, j \in 1..Len(q.t) : i # j => q.t[i][1] # q.t[j][1]

Verdict(q, T) ==
  IF q.op = "panic" THEN "Panic"
  ELSE IF q.op = "ids" THEN (IF Load(q).distinct THEN "ok" ELSE "harness:commit-id-collision")
  ELSE IF q.op # "q" THEN "harness:unknown-op"
  ELSE IF q.k = "ix_short" THEN
       (IF q.id \in T.cids THEN (IF ShortestOK(q.id, q.out, T.cids) THEN "ok" ELSE "ShortestOK")
        ELSE (IF ShortestAbsentOK(q.id, q.out, T.cids) THEN "ok" ELSE "ShortestAbsentOK"))
  ELSE IF q.k = "ix_resolve" THEN
       (IF CommitResolveOK(q, Resolve(q.p, T.cids), T) THEN "ok" ELSE "ResolveOK")
  ELSE IF q.k = "ch_short" THEN
       (IF ShortestOK(q.id, q.out, T.chids) THEN "ok" ELSE "ShortestChangeOK")
  ELSE IF q.k = "ch_resolve" THEN
       (IF ChangeResolveOK(q, Resolve(q.p, T.chids), T) THEN "ok" ELSE "ResolveChangeOK")
  ELSE IF q.k = "ctx_short_commit" THEN
       (IF ~ShortestUsableOK(T.cid[q.c], q.exact, T.hasD, T.dcids, T.cids, {}) THEN "ShortestExactOK"
        ELSE IF ~ShortestUsableOK(T.cid[q.c], q.out, T.hasD, T.dcids, T.cids, T.crefs) THEN "ShortestUsableOK"
        ELSE "ok")
  ELSE IF q.k = "ctx_resolve_commit" THEN
       (IF CommitResolveOK(q, Resolve2(q.p, T.hasD, T.dcids, T.cids), T) THEN "ok" ELSE "Resolve2OK")
  ELSE IF q.k = "ctx_short_change" THEN
       (IF ShortestUsableOK(T.chid[q.c], q.out, T.hasD, T.dchids, T.chids, T.chrefs) THEN "ok"
        ELSE "ShortestUsableChangeOK")
  ELSE IF q.k = "ctx_resolve_change" THEN
       (IF ChangeResolveOK(q, Resolve2(q.p, T.hasD, T.dchids, T.chids), T) THEN "ok" ELSE "Resolve2ChangeOK")
  ELSE "harness:unknown-query"

(* divergence from the neighbour-rule transcription *)
Diverges(q, T) ==
  /\ q.op = "q"
  /\ \/ (q.k = "ix_short" /\ q.out # NeighbourLen(q.id, T.cids, 0))
     \/ (q.k = "ch_short" /\ q.out # NeighbourLen(q.id, T.chids, 0))
     \/ (q.k = "ctx_short_commit" /\ T.n >= 1
         /\ q.exact # TwoLevelLen(T.cid[q.c], T.hasD, T.dcids, T.cids, 0))

NoTab == [n |-> -1]
Init == l = 1 /\ tab = NoTab
Next ==
  \/ /\ l <= Len(Rec)
     /\ LET r == Rec[l]
            v == IF r.op = "q" /\ tab = NoTab THEN "harness:query-before-load" ELSE Verdict(r, tab)
        IN /\ (IF v = "ok" THEN TRUE ELSE PrintT(<<"BAD", l, v>>))
           /\ (IF tab # NoTab /\ Diverges(r, tab) THEN PrintT(<<"DIVERGES", l>>) ELSE TRUE)
           /\ tab' = IF r.op = "ids" THEN Load(r) ELSE tab
     /\ l' = l + 1
  \/ /\ l = Len(Rec) + 1
     /\ PrintT(<<"JUDGED", Len(Rec)>>)
     /\ l' = l + 1 /\ UNCHANGED tab
Spec == Init /\ [][Next]_<<l, tab>>
=============================================================================
