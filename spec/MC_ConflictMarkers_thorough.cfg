SPECIFICATION Spec
CONSTANTS
  NumTerms = 3
  MaxLines = 2
  NFull = 4
  NOpen = 2
  UseCrlf = FALSE
  Bug = "none"
INVARIANTS InvRoundTrip InvEditResolved InvMarkerLen
CHECK_DEADLOCK FALSE
