---------------------------- MODULE Trace_Revset ----------------------------
(* I->S judge for C19: a record is one expression evaluated by the real      *)
(* engine on a real repository, optimised (`evaluate`) and unoptimised       *)
(* (`evaluate_unoptimized`); TLC compares both lists with Eval.              *)
EXTENDS Revset, Json, IOUtils, TLC

Rec == ndJsonDeserialize(IOEnv.TRACE)

VARIABLE l

IsList(x) == DOMAIN x = 1..Len(x)      \* results are sequences; errors are records [err |-> msg]

Verdict(r) ==
  IF r.op = "panic" THEN "Panic"
  ELSE IF r.op # "revset" THEN "harness:unknown-op"
  ELSE
  LET n == Len(r.par)
      G == [c \in 0..n |-> IF c = 0 THEN <<>> ELSE r.par[c]]
      vh == RsSeqToSet(r.vh)
  IN IF ~TopoNumbered(G) \/ ~(vh \subseteq DOMAIN G) THEN "harness:bad-graph"
     ELSE IF r.opt_err # "" THEN "EvaluationError"
     ELSE IF r.unopt_err # "" THEN "EvaluationErrorUnoptimized"
     ELSE LET want == EvalTop(r.e, G, vh, r.ts) IN
          IF ~ResultOK(G, want, r.opt) THEN
               (IF RsSeqToSet(r.opt) # want THEN "ResultSet" ELSE "ResultOrder")
          ELSE IF ~ResultOK(G, want, r.unopt) THEN
               (IF RsSeqToSet(r.unopt) # want THEN "ResultSetUnoptimized" ELSE "ResultOrderUnoptimized")
          ELSE IF r.opt # r.unopt THEN "OptimizedEqualsUnoptimized"
          ELSE "ok"

Init == l = 1
Next ==
  \/ /\ l <= Len(Rec)
     /\ LET v == Verdict(Rec[l]) IN (IF v = "ok" THEN TRUE ELSE PrintT(<<"BAD", l, v>>))
     /\ l' = l + 1
  \/ /\ l = Len(Rec) + 1
     /\ PrintT(<<"JUDGED", Len(Rec)>>)
     /\ l' = l + 1
Spec == Init /\ [][Next]_l
=============================================================================
