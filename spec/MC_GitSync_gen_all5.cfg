SPECIFICATION Spec
CONSTANTS
  NB = 1
  Par <- MC_Par4
  GitOnly = {4}
  MaxSteps = 6
  MaxTerms = 5
  Emit = "all"
  Bug = "none"
CONSTRAINT Small
VIEW View
INVARIANTS InvStep InvConverge InvIdem
CHECK_DEADLOCK FALSE
