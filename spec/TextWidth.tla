----------------------------- MODULE TextWidth -----------------------------
(* C44: eliding, truncating, padding and wrapping text for display          *)
(* (cli/src/text_util.rs).                                                  *)
(*                                                                          *)
(* A text is a sequence of character CLASSES; the class fixes the display   *)
(* width:                                                                   *)
(*   "a" ASCII letter (1)      "W" wide CJK (2)     "s" space (1)           *)
(*   "m" combining mark (0)    "z" zero-width space / joiner-like (0)       *)
(* and, for the known finding only, classes on which jj's two width         *)
(* measures (per-character sum vs. string-level width) disagree:            *)
(*   "c" control character (0 per char, 1 at string level)                  *)
(*   "e" emoji (2), "j" ZWJ (0): "e j e" is one glyph of width 2            *)
(*   "t" text-presentation symbol (1), "v" VS16 (0): "t v" has width 2      *)
(* An OUTPUT is a sequence of <<source, index>> pairs: the harness uses a   *)
(* distinct concrete character for every position of the text ("t"), the    *)
(* ellipsis ("e") and the fill ("f"), so every output character is traced   *)
(* back to where it came from; anything else (a split character, a foreign  *)
(* byte) is <<"?", code>> and breaks every contract.                        *)
(*                                                                          *)
(* CONTRACTS (…OK) state the property; the REFERENCE TRANSCRIPTIONS (…Ref)  *)
(* follow text_util.rs step by step (write_truncated_start with the guard   *)
(* added by fix 032bffc; Bug = "truncstart_strips" is the code before it).  *)
EXTENDS Naturals, Integers, Sequences, FiniteSets

CONSTANT Bug

CW(c) == IF c \in {"a", "s", "t"} THEN 1 ELSE IF c \in {"W", "e"} THEN 2 ELSE 0

RECURSIVE Width(_)
Width(t) == IF t = <<>> THEN 0 ELSE CW(Head(t)) + Width(Tail(t))

(* string-level width (unicode-width's UnicodeWidthStr) on the model's classes *)
RECURSIVE StrWidthFrom(_, _)
StrWidthFrom(t, i) ==
  IF i > Len(t) THEN 0
  ELSE (IF t[i] = "c" THEN 1
        ELSE IF t[i] = "v" /\ i > 1 /\ t[i - 1] = "t" THEN 1
        ELSE IF t[i] = "e" /\ i > 2 /\ t[i - 1] = "j" /\ t[i - 2] = "e" THEN 0
        ELSE CW(t[i])) + StrWidthFrom(t, i + 1)
StrWidth(t) == StrWidthFrom(t, 1)
MeasuresDiffer(t) == StrWidth(t) # Width(t)

Take(t, n) == SubSeq(t, 1, n)
Drop(t, n) == SubSeq(t, n + 1, Len(t))
Max(a, b) == IF a > b THEN a ELSE b
Monus(a, b) == IF a > b THEN a - b ELSE 0

(* outputs *)
Src(src, lo, hi) == [j \in 1..Monus(hi + 1, lo) |-> <<src, lo + j - 1>>]     \* positions lo..hi of a source
All(src, t) == Src(src, 1, Len(t))
ClassOf(o, t, e) == IF o[1] = "t" THEN t[o[2]] ELSE IF o[1] = "e" THEN e[o[2]] ELSE IF o[1] = "f" THEN "a" ELSE "?"
WellFormedOut(out, t, e) ==
  \A j \in 1..Len(out) : \/ out[j][1] = "t" /\ out[j][2] \in 1..Len(t)
                         \/ out[j][1] = "e" /\ out[j][2] \in 1..Len(e)
                         \/ out[j][1] = "f" /\ out[j][2] = 1
OutWidth(out, t, e) == Width([j \in 1..Len(out) |-> ClassOf(out[j], t, e)])

---------------------------------------------------------------------------
(* REFERENCE TRANSCRIPTIONS.  Positions are counts of characters.            *)

(* truncate_start_pos: <<number of leading chars dropped, width kept>> *)
RECURSIVE TSP(_, _, _, _)
TSP(t, w, i, acc) ==
  IF i = 0 THEN <<0, acc>>
  ELSE IF acc + CW(t[i]) > w THEN <<i, acc>> ELSE TSP(t, w, i - 1, acc + CW(t[i]))
TruncStartPos(t, w) == TSP(t, w, Len(t), 0)

(* truncate_end_pos: <<number of leading chars kept, width kept>> *)
RECURSIVE TEP(_, _, _, _)
TEP(t, w, i, acc) ==
  IF i > Len(t) THEN <<Len(t), acc>>
  ELSE IF acc + CW(t[i]) > w THEN <<i - 1, acc>> ELSE TEP(t, w, i + 1, acc + CW(t[i]))
TruncEndPos(t, w) == TEP(t, w, 1, 0)

(* skip_start_pos: <<number of leading chars skipped, width skipped>> *)
RECURSIVE SSP(_, _, _, _)
SSP(t, w, i, acc) ==
  IF i > Len(t) THEN <<Len(t), acc>>
  ELSE IF acc >= w THEN <<i - 1, acc>> ELSE SSP(t, w, i + 1, acc + CW(t[i]))
SkipStartPos(t, w) == SSP(t, w, 1, 0)

(* skip_end_pos: <<number of leading chars kept, width skipped>> *)
RECURSIVE SEP(_, _, _, _)
SEP(t, w, i, acc) ==
  IF i = 0 THEN <<0, acc>>
  ELSE IF acc >= w THEN <<i, acc>> ELSE SEP(t, w, i - 1, acc + CW(t[i]))
SkipEndPos(t, w) == SEP(t, w, Len(t), 0)

(* number of leading zero-width chars of t from position i on *)
RECURSIVE LeadZero(_, _)
LeadZero(t, i) == IF i > Len(t) \/ CW(t[i]) # 0 THEN 0 ELSE 1 + LeadZero(t, i + 1)

(* every reference returns <<output, reported width>> *)
ElideStartRef(t, e, w) ==
  LET tp == TruncStartPos(t, w) IN
  IF tp[1] = 0 THEN <<All("t", t), tp[2]>>
  ELSE LET ep == TruncStartPos(e, w) IN
       IF ep[1] # 0 THEN <<Src("e", ep[1] + 1 + LeadZero(e, ep[1] + 1), Len(e)), ep[2]>>
       ELSE LET t1 == Drop(t, tp[1])
                sk == SkipStartPos(t1, Monus(tp[2], w - ep[2]))
                from == tp[1] + sk[1] + 1
            IN <<All("e", e) \o Src("t", from + LeadZero(t, from), Len(t)), ep[2] + (tp[2] - sk[2])>>

ElideEndRef(t, e, w) ==
  LET tp == TruncEndPos(t, w) IN
  IF tp[1] = Len(t) THEN <<All("t", t), tp[2]>>
  ELSE LET ep == TruncEndPos(e, w) IN
       IF ep[1] # Len(e) THEN <<Src("e", 1, ep[1]), ep[2]>>
       ELSE LET t1 == Take(t, tp[1])
                sk == SkipEndPos(t1, Monus(tp[2], w - ep[2]))
            IN <<Src("t", 1, sk[1]) \o All("e", e), (tp[2] - sk[2]) + ep[2]>>

(* write_truncated_start / _end use the string-level width for the "fits" test *)
TruncStartRef(t, e, w) ==
  LET dw == StrWidth(t)  ew == StrWidth(e) IN
  IF dw <= w
  THEN <<(IF Bug = "truncstart_strips" THEN Src("t", 1 + LeadZero(t, 1), Len(t)) ELSE All("t", t)), dw>>
  ELSE LET tp == TruncStartPos(t, Monus(w, ew))
           ep == TruncStartPos(e, w)
           efrom == ep[1] + 1
           tfrom == tp[1] + 1
       IN <<Src("e", efrom + LeadZero(e, efrom), Len(e))
            \o (IF tp[1] = 0 /\ Bug # "truncstart_strips" THEN All("t", t) ELSE Src("t", tfrom + LeadZero(t, tfrom), Len(t))),
            tp[2] + ep[2]>>

TruncEndRef(t, e, w) ==
  LET dw == StrWidth(t)  ew == StrWidth(e) IN
  IF dw <= w THEN <<All("t", t), dw>>
  ELSE LET tp == TruncEndPos(t, Monus(w, IF Bug = "truncend_ignores_ellipsis" THEN 0 ELSE ew))
           ep == TruncEndPos(e, w)
       IN <<Src("t", 1, tp[1]) \o Src("e", 1, ep[1]), tp[2] + ep[2]>>

Fill(k) == [j \in 1..k |-> <<"f", 1>>]
PadRef(kind, t, w) ==
  LET k == Monus(w, StrWidth(t))
      l == IF kind = "start" THEN k ELSE IF kind = "end" THEN 0 ELSE k \div 2
  IN Fill(l) \o All("t", t) \o Fill(IF Bug = "pad_short" /\ k > 0 THEN k - l - 1 ELSE k - l)

(* wrap_bytes: words are maximal runs without a space, each with its trailing *)
(* spaces; first-fit.  A line is <<first char, last char>> of the text        *)
(* (<<1, 0>> = empty line).  No newlines in the model's texts.                *)
(* words as <<start, end of word, number of trailing spaces>> *)
RECURSIVE RunEnd(_, _, _)
RunEnd(t, j, spaces) ==        \* last index of the run of (non-)spaces starting at j (j - 1 if empty)
  IF j <= Len(t) /\ ((t[j] = "s") = spaces) THEN RunEnd(t, j + 1, spaces) ELSE j - 1
RECURSIVE WordsFrom(_, _)
WordsFrom(t, i) ==
  IF i > Len(t) THEN <<>>
  ELSE LET we == RunEnd(t, i, FALSE) IN
       IF we = Len(t) THEN <<<<i, we, 0>>>>
       ELSE LET se == RunEnd(t, we + 1, TRUE) IN <<<<i, we, se - we>>>> \o WordsFrom(t, se + 1)
Words(t) == WordsFrom(t, 1)
WordWidth(t, wd) == Width(SubSeq(t, wd[1], wd[2]))

RECURSIVE FirstFit(_, _, _, _, _, _)
FirstFit(t, ws, w, idx, start, width) ==       \* returns a sequence of <<first word, last word>>
  IF idx > Len(ws) THEN <<<<start, Len(ws)>>>>
  ELSE IF width + WordWidth(t, ws[idx]) > (IF Bug = "wrap_overfull" THEN w + 1 ELSE w) /\ idx > start
       THEN <<<<start, idx - 1>>>> \o FirstFit(t, ws, w, idx, idx, 0)
       ELSE FirstFit(t, ws, w, idx + 1, start, width + WordWidth(t, ws[idx]) + ws[idx][3])
WrapRef(t, w) ==
  LET ws == Words(t) IN
  IF ws = <<>> THEN <<<<1, 0>>>>
  ELSE LET ls == FirstFit(t, ws, w, 1, 1, 0)
       IN [k \in 1..Len(ls) |-> <<ws[ls[k][1]][1], ws[ls[k][2]][2]>>]

---------------------------------------------------------------------------
(* CONTRACTS                                                                 *)

(* "never split a character": the cut does not separate a combining mark     *)
(* from its base - the first kept character after a cut at the start, or the *)
(* first dropped one after a cut at the end, is not a combining mark.        *)
CutOKStart(t, m) == m = 0 \/ t[Len(t) - m + 1] # "m"          \* the last m chars are kept
CutOKEnd(t, m) == m = Len(t) \/ m = 0 \/ t[m + 1] # "m"      \* the first m chars are kept

(* elide_* / write_truncated_*: `side` is where characters are removed *)
ShortenOK(side, t, e, w, out, rw) ==
  /\ WellFormedOut(out, t, e)
  /\ OutWidth(out, t, e) <= w                      \* never wider than requested
  /\ rw = OutWidth(out, t, e)                      \* the reported width is the real one
  /\ Width(t) <= w => out = All("t", t)            \* text that fits is unchanged
  /\ Width(t) > w =>                               \* otherwise: whole characters of the ellipsis and of the text, in place
       \E k \in 0..Len(e), m \in 0..(Len(t) - 1) :
          IF side = "start"
          THEN out = Src("e", Len(e) - k + 1, Len(e)) \o Src("t", Len(t) - m + 1, Len(t)) /\ CutOKStart(t, m)
          ELSE out = Src("t", 1, m) \o Src("e", 1, k) /\ CutOKEnd(t, m)

(* write_padded_*: the text unchanged, only fill characters added, the       *)
(* result exactly max(w, width of text) wide, centred within one column      *)
PadOK(kind, t, w, out) ==
  /\ WellFormedOut(out, t, <<>>)
  /\ \E l \in 0..Monus(w, Width(t)) :
       LET r == Monus(w, Width(t)) - l IN
       /\ out = Fill(l) \o All("t", t) \o Fill(r)
       /\ kind = "start" => r = 0
       /\ kind = "end" => l = 0
       /\ kind = "center" => (l = r \/ l + 1 = r \/ r + 1 = l)

(* wrap_bytes: lines are slices of the text made of whole words, in order,   *)
(* together they contain every word; no line is wider than w unless it is a  *)
(* single word; a text that fits stays one line (minus trailing spaces).     *)
NonEmptyWords(t) == SelectSeq(Words(t), LAMBDA wd : wd[2] >= wd[1])
WrapOK(t, w, lines) ==
  LET nw == NonEmptyWords(t)
      IsEmptyLine(ln) == ln[2] < ln[1]
      LineText(ln) == SubSeq(t, ln[1], ln[2])
      WordsIn(ln) == {k \in 1..Len(nw) : nw[k][1] >= ln[1] /\ nw[k][2] <= ln[2]}
  IN /\ Len(lines) >= 1
     /\ \A k \in 1..Len(lines) :
          \/ IsEmptyLine(lines[k])
          \/ /\ lines[k][1] \in 1..Len(t) /\ lines[k][2] \in 1..Len(t)
             \* made of whole words: starts at the text start or a word start, ends at a word end
             /\ (lines[k][1] = 1 \/ (t[lines[k][1]] # "s" /\ t[lines[k][1] - 1] = "s"))
             /\ t[lines[k][2]] # "s" /\ (lines[k][2] = Len(t) \/ t[lines[k][2] + 1] = "s")
             \* no wider than requested, except a single word
             /\ (Width(LineText(lines[k])) <= w \/ Cardinality(WordsIn(lines[k])) <= 1)
     \* in order, nothing lost, nothing repeated
     /\ \A k \in 1..(Len(lines) - 1) : \A k2 \in (k + 1)..Len(lines) :
          IsEmptyLine(lines[k]) \/ IsEmptyLine(lines[k2]) \/ lines[k][2] < lines[k2][1]
     /\ \A x \in 1..Len(nw) : \E k \in 1..Len(lines) : x \in WordsIn(lines[k])
     \* fits => unchanged
     /\ (Width(t) <= w /\ nw # <<>>) => lines = <<<<IF t[1] = "s" THEN 1 ELSE nw[1][1], nw[Len(nw)][2]>>>>
=============================================================================
