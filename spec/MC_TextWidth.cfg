SPECIFICATION Spec
CONSTANTS
  MaxLen = 4
  MaxWrapLen = 4
  MaxDifferLen = 2
  MaxW = 5
  Kinds = {"shorten", "wrap", "differ"}
  Emit = TRUE
  Bug = "none"
INVARIANTS InvElide InvTruncate InvPad InvWrap InvMeasures EmitInv
CHECK_DEADLOCK FALSE
