SPECIFICATION Spec
CONSTANTS
  NB = 1
  Par <- MC_Par4
  GitOnly = {4}
  MaxSteps = 0
  MaxTerms = 5
  Emit = "none"
  Bug = "ff_shortcut"
CONSTRAINT Small
VIEW View
INVARIANTS InvStep
CHECK_DEADLOCK FALSE
