SPECIFICATION Spec
CONSTANTS
  Vocab <- MC_Vocab24
  Paths <- MC_Paths
  SubDir <- MC_SubDir
  MaxRoot = 1
  MaxSub = 1
  Bug = "none"
INVARIANTS InvWalk InvInsideIgnoredDir InvLastLineWins InvInnerFileWins
CHECK_DEADLOCK FALSE
