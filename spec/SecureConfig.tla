---------------------------- MODULE SecureConfig ----------------------------
(* C43: where jj loads a repository's configuration from                    *)
(* (lib/src/secure_config.rs).                                              *)
(*                                                                          *)
(* World: a few repository directories (each may hold a `config-id` file,   *)
(* may be a symlink to another one) and the user's per-repo config          *)
(* directory <root>/<id>/{metadata.binpb, config.toml}.  The metadata       *)
(* records the repository path the config belongs to.  Repositories are     *)
(* created, copied (cp -r), moved, deleted, aliased (ln -s) behind jj's     *)
(* back; anybody can write anything into a repository's config-id file      *)
(* (a cloned / downloaded / attacker-prepared repository).                  *)
(*                                                                          *)
(* One action per user-visible step; Load(r) is SecureConfig::load_config   *)
(* with a fresh SecureConfig (a new jj process), transcribed branch by      *)
(* branch from maybe_load_config / handle_metadata_path.                    *)
(*                                                                          *)
(* Config ids are abstract: "i1", "i2", … are generated ids in order of     *)
(* generation, "ix" is a well-formed id nobody generated (written by hand). *)
EXTENDS Naturals, Sequences, FiniteSets

CONSTANTS Repos,       \* repository directory names
          NumIds,      \* how many ids may be generated
          Bug          \* "none" or a seeded design bug

GenIds == {"i1", "i2", "i3", "i4", "i5", "i6", "i7", "i8"}
IdSeq == <<"i1", "i2", "i3", "i4", "i5", "i6", "i7", "i8">>
ValidIds == {IdSeq[k] : k \in 1..NumIds} \cup {"ix"}
BadIds == {"dotdot", "short", "nonhex", "newline"}      \* ill-formed config-id contents
Contents == {"A", "B"}                                  \* what a user may put into config.toml

VARIABLES repos,   \* [Repos -> [exists, link, idf]]  link: "" or the repo this one is a symlink to
                   \*                                 idf: "none" | a valid id | a bad id
          cfg,     \* [ValidIds -> [exists, meta, content]]  meta: repo path in metadata.binpb ("" if none)
                   \*                                        content: "nofile" | "A" | "B"
          used,    \* number of ids generated so far
          last     \* outcome of the last action (what the caller of load_config sees)
vars == <<repos, cfg, used, last>>

NoRepo == [exists |-> FALSE, link |-> "", idf |-> "none"]
NoCfg == [exists |-> FALSE, meta |-> "", content |-> "nofile"]
Quiet(a) == [a |-> a, r |-> "", ok |-> TRUE, id |-> "", case |-> "", idf |-> "", from |-> ""]

Init == /\ repos = [r \in Repos |-> NoRepo]
        /\ cfg = [i \in ValidIds |-> NoCfg]
        /\ used = 0
        /\ last = Quiet("init")

(* the directory that really holds r's files *)
Dir(r) == IF repos[r].link = "" THEN r ELSE repos[r].link
IsDir(r) == repos[r].exists
Aliased(r) == \E a \in Repos : repos[a].exists /\ repos[a].link = r
SameDir(a, b) == IsDir(a) /\ IsDir(b) /\ Dir(a) = Dir(b)

Create(r) ==
  /\ ~repos[r].exists
  /\ repos' = [repos EXCEPT ![r] = [exists |-> TRUE, link |-> "", idf |-> "none"]]
  /\ UNCHANGED <<cfg, used>> /\ last' = Quiet("Create")

Copy(r, d) ==        \* cp -r r d
  /\ repos[r].exists /\ repos[r].link = "" /\ ~repos[d].exists /\ r # d
  /\ repos' = [repos EXCEPT ![d] = repos[r]]
  /\ UNCHANGED <<cfg, used>> /\ last' = Quiet("Copy")

Move(r, d) ==        \* mv r d
  /\ repos[r].exists /\ repos[r].link = "" /\ ~Aliased(r) /\ ~repos[d].exists /\ r # d
  /\ repos' = [repos EXCEPT ![d] = repos[r], ![r] = NoRepo]
  /\ UNCHANGED <<cfg, used>> /\ last' = Quiet("Move")

Delete(r) ==         \* rm -r r (or rm of the symlink)
  /\ repos[r].exists /\ ~Aliased(r)
  /\ repos' = [repos EXCEPT ![r] = NoRepo]
  /\ UNCHANGED <<cfg, used>> /\ last' = Quiet("Delete")

Alias(r, d) ==       \* ln -s r d
  /\ repos[r].exists /\ repos[r].link = "" /\ ~repos[d].exists /\ r # d
  /\ repos' = [repos EXCEPT ![d] = [exists |-> TRUE, link |-> r, idf |-> "none"]]
  /\ UNCHANGED <<cfg, used>> /\ last' = Quiet("Alias")

WriteId(r, s) ==     \* anything can end up in a repository's config-id file
  /\ repos[r].exists /\ repos[r].link = ""
  /\ s \in BadIds \cup {"ix"} \cup {IdSeq[k] : k \in 1..used}
  /\ repos' = [repos EXCEPT ![r].idf = s]
  /\ UNCHANGED <<cfg, used>> /\ last' = Quiet("WriteId")

Edit(i, c) ==        \* the user edits <root>/<i>/config.toml (jj config edit --repo)
  /\ cfg[i].exists /\ c \in Contents
  /\ cfg' = [cfg EXCEPT ![i].content = c]
  /\ UNCHANGED <<repos, used>> /\ last' = Quiet("Edit")

(* --- SecureConfig::load_config ------------------------------------------ *)
Result(r, ok, id, case, idf, from) == [a |-> "Load", r |-> r, ok |-> ok, id |-> id, case |-> case, idf |-> idf, from |-> from]
FreshId == IdSeq[used + 1]

Load(r) ==
  /\ repos[r].exists
  /\ LET d == Dir(r)  idf == repos[d].idf IN
     IF idf \in BadIds /\ ~(Bug = "accepts_bad_id" /\ idf = "dotdot") THEN
          \* BadConfigIdError, nothing touched
          /\ last' = Result(r, FALSE, "", "bad-id", idf, "")
          /\ UNCHANGED <<repos, cfg, used>>
     ELSE IF idf \in BadIds THEN
          \* (seeded bug) the ill-formed id is used as a path component
          /\ last' = Result(r, TRUE, "outside-root", "bad-id", idf, "")
          /\ UNCHANGED <<repos, cfg, used>>
     ELSE IF idf = "none" THEN
          \* no config-id (and no legacy file): generate an id, metadata, no config.toml yet
          /\ used < NumIds
          /\ cfg' = [cfg EXCEPT ![FreshId] = [exists |-> TRUE, meta |-> r, content |-> "nofile"]]
          /\ repos' = [repos EXCEPT ![d].idf = FreshId]
          /\ used' = used + 1
          /\ last' = Result(r, TRUE, FreshId, "fresh", idf, "")
     ELSE IF ~cfg[idf].exists THEN
          \* well-formed id without a config dir ("Per-repo config not found"): re-created under the same id
          /\ cfg' = [cfg EXCEPT ![idf] = [exists |-> TRUE, meta |-> r, content |-> "nofile"]]
          /\ last' = Result(r, TRUE, idf, "regenerated", idf, "")
          /\ UNCHANGED <<repos, used>>
     ELSE IF cfg[idf].meta = r THEN
          /\ last' = Result(r, TRUE, idf, "own", idf, "")
          /\ UNCHANGED <<repos, cfg, used>>
     ELSE IF ~IsDir(cfg[idf].meta) THEN
          \* the recorded path is gone: the repository was moved; adopt the new path
          /\ cfg' = [cfg EXCEPT ![idf].meta = r]
          /\ last' = Result(r, TRUE, idf, "moved", idf, "")
          /\ UNCHANGED <<repos, used>>
     ELSE IF SameDir(cfg[idf].meta, r) THEN
          \* a file written into r shows up in the recorded directory: the same repository under another name
          /\ last' = Result(r, TRUE, idf, "alias", idf, "")
          /\ UNCHANGED <<repos, cfg, used>>
     ELSE IF Bug = "copy_shares_config" THEN
          /\ last' = Result(r, TRUE, idf, "copied", idf, "")
          /\ UNCHANGED <<repos, cfg, used>>
     ELSE \* the recorded repository still exists elsewhere: r is a copy; it gets its own id and a copy of the content
          /\ used < NumIds
          /\ cfg' = [cfg EXCEPT ![FreshId] = [exists |-> TRUE, meta |-> r,
                                              content |-> IF Bug = "copy_loses_content" THEN "nofile" ELSE cfg[idf].content]]
          /\ repos' = [repos EXCEPT ![d].idf = FreshId]
          /\ used' = used + 1
          /\ last' = Result(r, TRUE, FreshId, "copied", idf, idf)

Next ==
  \/ \E r \in Repos : Create(r) \/ Delete(r) \/ Load(r)
  \/ \E r, d \in Repos : Copy(r, d) \/ Move(r, d) \/ Alias(r, d)
  \/ \E r \in Repos, s \in BadIds \cup ValidIds : WriteId(r, s)
  \/ \E i \in ValidIds, c \in Contents : Edit(i, c)

Spec == Init /\ [][Next]_vars

---------------------------------------------------------------------------
(* INVARIANTS (C43)                                                          *)
Loaded == last.a = "Load" /\ last.ok

(* every successful load returns <root>/<well-formed id>/config.toml of an existing config dir *)
InvLoadInsideRoot == Loaded => last.id \in ValidIds /\ cfg[last.id].exists
(* an ill-formed config-id is an error, whatever it contains *)
InvBadIdRejected == (last.a = "Load" /\ last.idf \in BadIds) => ~last.ok
(* the config a repository loads belongs to that repository (directory): never to  *)
(* another directory that still exists - a copy never shares the original's file   *)
InvNoSharing == Loaded /\ last.id \in ValidIds =>
                   (cfg[last.id].meta = last.r \/ SameDir(cfg[last.id].meta, last.r))
(* a copy starts with the original's content, under a new id, the original untouched *)
InvCopyKeepsContent == (Loaded /\ last.from # "") =>
                          /\ last.id # last.from
                          /\ last.id \in ValidIds /\ cfg[last.id].content = cfg[last.from].content
(* loading never changes what another existing repository would load *)
InvMetaPointsToExisting == \A i \in ValidIds : (Loaded /\ last.id = i) => IsDir(cfg[i].meta)

(* what an observer can see of the world (the harness projects the real directories to this) *)
Project == [repos |-> repos, cfg |-> cfg,
            res |-> [ok |-> last.ok, id |-> last.id]]
=============================================================================
