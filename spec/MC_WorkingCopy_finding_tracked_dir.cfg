SPECIFICATION Spec
CONSTANTS
  Paths <- StdPaths
  PathOrder <- StdPathOrder
  IgnoreVocab <- StdIgnoreVocab
  Bug = "none"
  MaxSteps = 4
  MaxEditRun = 3
  Acts = {"FileToDir", "Snapshot", "CheckOut"}
  EditPaths <- AllEditPaths
  Contents = {1, 2}
  SymTargets = {"f"}
  RootIgnore = {2, 3}
  DirIgnore = {5}
  TreeIds = {4, 5}
  SparseIds = {}
  XP = "respect"
  Strict = "all"
  Emit = FALSE
INVARIANTS Inv_C23
VIEW View
CHECK_DEADLOCK FALSE
