------------------------ MODULE MC_ConflictMarkers ------------------------
(* Design-level check of the conflict-marker format (C05, and the part of  *)
(* C06 that is about the format): for every conflict over a small line     *)
(* vocabulary that contains marker look-alikes, lines starting with the    *)
(* diff prefixes, CR bytes and unterminated last lines, written in every   *)
(* style with every choice of snapshot side and with the marker length the *)
(* reference rule chooses,                                                 *)
(*      SpecParse(SpecMaterialize(hunks)) = hunks                          *)
(* (InvRoundTrip), and replacing the resolved text around the conflict     *)
(* leaves the parsed conflict hunks unchanged (InvEditResolved).           *)
(* The conflict is grown line by line by Next so TLC's workers share the   *)
(* domain.  Bug seeds the negative configs.                                *)
EXTENDS ConflictMarkers, TLC

CONSTANTS NumTerms, MaxLines, NFull, NOpen, UseCrlf, Bug   \* NFull/NOpen: how much of the vocabulary is used

(* vocabulary: complete lines (terminated) and unterminated last lines *)
EOL == IF UseCrlf THEN <<CR, LF>> ELSE <<LF>>
Body == << <<97>>,                                   \* a
           <<>>,                                      \* empty line
           Rep(ChAdd, 7),                             \* +++++++      marker look-alike
           Rep(ChRemove, 6) \o <<SP, 120>>,           \* ------ x     becomes 7 dashes behind a '-'
           Rep(ChEnd, 7),                             \* >>>>>>>
           <<ChAdd, 97>>,                             \* +a           starts with a diff prefix
           <<SP>> >>                                  \* a blank that an editor could strip
FullLines == [i \in 1..Len(Body) |-> Body[i] \o EOL]
OpenLines == << <<97>>, Rep(ChStart, 7), <<97, CR>> >>   \* no final newline

VARIABLE st   \* [terms: sequence of NumTerms texts as line-index lists, open: which term got an unterminated line]

LineOf(x) == IF x > 0 THEN FullLines[x] ELSE OpenLines[0 - x]
TextOf(t) == CatAll([i \in 1..Len(t) |-> LineOf(t[i])])
Closed(t) == IF t = <<>> THEN TRUE ELSE t[Len(t)] > 0

Init == st = [k \in 1..NumTerms |-> <<>>]
Next == \E k \in 1..NumTerms :
          /\ Len(st[k]) < MaxLines /\ Closed(st[k])
          /\ \A j \in (k + 1)..NumTerms : st[j] = <<>>        \* canonical growth order
          /\ \E x \in (1..NFull) \cup {0 - i : i \in 1..NOpen} :
               st' = [st EXCEPT ![k] = Append(@, x)]
Spec == Init /\ [][Next]_st

Hunk == [k \in 1..NumTerms |-> TextOf(st[k])]
NSides == (NumTerms + 1) \div 2
Pre == <<97, 97>> \o EOL
Post == <<98>> \o EOL
(* merge_hunks only produces unterminated terms in the last hunk of a file *)
HunkLists ==
  IF \A k \in 1..NumTerms : Closed(st[k])
  THEN {<<Hunk>>, << <<Pre>>, Hunk, <<Post>> >>, <<Hunk, <<Post>>, Hunk>>}
  ELSE {<<Hunk>>, << <<Pre>>, Hunk>>}

TheLen(hs) ==
  LET terms == [k \in 1..NumTerms |-> TermText(hs, k)]
      run == MaxMarkerRun(terms)
  IN IF Bug = "shortmarker" THEN (IF run > MinMarkerLen THEN run ELSE MinMarkerLen)   \* no increment
     ELSE IF Bug = "plusone" THEN (IF run + 1 > MinMarkerLen THEN run + 1 ELSE MinMarkerLen)
     ELSE RefMarkerLen(terms)
TheEol(hs) == IF DetectCrlf([k \in 1..NumTerms |-> TermText(hs, k)]) THEN <<CR, LF>> ELSE <<LF>>

(* seeded design bugs in the writer *)
NoSpread(hs, style, p, L, lab, eol) ==    \* sides without final EOL are not separated from the next marker
  CatAll([h \in 1..Len(hs) |->
     IF Len(hs[h]) = 1 THEN hs[h][1]
     ELSE LET allEol == \A t \in 1..Len(hs[h]) : hs[h][t] = <<>> \/ Last(hs[h][t]) = LF
              w == WriteConflict([t \in 1..Len(hs[h]) |-> IF hs[h][t] = <<>> \/ Last(hs[h][t]) = LF
                                                          THEN hs[h][t] ELSE hs[h][t] \o eol],
                                 style, p, L, lab, eol)
          IN IF allEol THEN w ELSE SubSeq(w, 1, Len(w) - Len(eol))])
Mat(hs, style, p, lab) ==
  IF Bug = "nospread" THEN NoSpread(hs, style, p, TheLen(hs), lab, TheEol(hs))
  ELSE SpecMaterialize(hs, style, p, TheLen(hs), lab, TheEol(hs))
(* seeded design bug in the format: the separator EOL is not removed *)
TheParse(bytes, n, L) ==
  IF Bug = "nostrip"
  THEN LET lines == Lines(bytes)
           RECURSIVE F(_, _)
           F(s, i) == IF i > Len(lines) THEN s
                      ELSE F(OuterStep(s, IF Last(lines[i]) # LF /\ MarkerKind(lines[i], L) = ChEnd
                                          THEN [lines EXCEPT ![i] = @ \o <<LF>>] ELSE lines, i, n, L), i + 1)
       IN OuterFinish(F(OuterInit, 1), lines)
  ELSE SpecParse(bytes, n, L)

Styles == {"diff", "diffexp", "snapshot", "git"}
Labels == {<<>>, <<SP, 120, SP, 49>>}      \* none, " x 1"

InvRoundTrip ==
  \A hs \in HunkLists, style \in Styles, lab \in Labels :
    \A p \in (IF style = "diff" THEN 0..(NSides - 1) ELSE {0}) :
      TheParse(Mat(hs, style, p, lab), NSides, TheLen(hs)) = [some |-> TRUE, hunks |-> hs]

(* C06 at the format level: editing only resolved text keeps the conflicts *)
InvEditResolved ==
  LET hs == << <<Pre>>, Hunk >>
      hs2 == << <<Pre \o <<99>> \o EOL>>, Hunk >>
      L == TheLen(hs)
      edited == <<99>> \o EOL \o SpecMaterialize(<<Hunk>>, "snapshot", 0, L, <<>>, TheEol(hs))
      p == SpecParse(edited, NSides, L)
  IN p.some /\ ConflictHunks(p.hunks) = <<Hunk>> /\ p.hunks[1] = << <<99>> \o EOL >>

(* C06 scope self-test: in a materialised file  Pre / conflict / Post , an    *)
(* edit (delete, or change of the text after the marker run) of ANY marker   *)
(* or header line - start, end, side, base, the "%%%%%%% diff from:" line    *)
(* and its "\\\\\\\\\\\\\\ to:" continuation, Git's ||||||| and ======= - is out of   *)
(* scope, while replacing a line of the resolved text around it is in scope. *)
DeleteLine(lines, i) == CatAll(SubSeq(lines, 1, i - 1) \o SubSeq(lines, i + 1, Len(lines)))
ReplaceLine(lines, i, x) == CatAll([lines EXCEPT ![i] = x])
Relabel(line) ==      \* same marker run, different trailing text, same terminator
  LET n == Run(line, 1) IN SubSeq(line, 1, n) \o <<SP, 122, 122>> \o (IF Last(line) = LF THEN <<LF>> ELSE <<>>)
InvEditScope ==
  (\A k \in 1..NumTerms : Closed(st[k])) =>
    LET hs == << <<Pre>>, Hunk, <<Post>> >>
        L == TheLen(hs)
        mh == [res |-> FALSE, content |-> <<>>, hunks |-> hs]
    IN \A style \in Styles :
         LET mat == SpecMaterialize(hs, style, 0, L, <<SP, 120, SP, 49>>, TheEol(hs))
             lines == Lines(mat)
             first == 2                     \* Pre is one line
             last == Len(lines) - 1         \* Post is one line
         IN /\ MarkerKind(lines[first], L) = ChStart /\ MarkerKind(lines[last], L) = ChEnd
            /\ \A i \in first..last :
                 MarkerKind(lines[i], L) # 0 =>
                   /\ ~EditInScope(mh, mat, DeleteLine(lines, i), NSides, L)
                   /\ ~EditInScope(mh, mat, ReplaceLine(lines, i, Relabel(lines[i])), NSides, L)
            /\ EditInScope(mh, mat, ReplaceLine(lines, 1, <<99>> \o EOL), NSides, L)
            /\ EditInScope(mh, mat, ReplaceLine(lines, Len(lines), <<99>> \o EOL), NSides, L)
            /\ EditInScope(mh, mat, mat \o <<99>> \o EOL, NSides, L)

(* the reference marker length is longer than anything the content can show *)
InvMarkerLen ==
  LET terms == [k \in 1..NumTerms |-> Hunk[k]] IN
    RefMarkerLen(terms) >= MinMarkerLen /\ RefMarkerLen(terms) >= MaxMarkerRun(terms) + 2
=============================================================================
