----------------------------- MODULE MC_WcMtime -----------------------------
(* Design-level check of WcMtime (C26) and S->I behaviour generator.        *)
(* Every interleaving of check-out writes, state saves, same-size user      *)
(* edits, snapshots and clock ticks within the bounds is explored.          *)
EXTENDS WcMtime, TLC, Json

CONSTANTS MaxClock,     \* coarse clock runs 0..MaxClock
          MaxSnaps,     \* snapshot commands per behaviour
          MaxCheckouts, \* check-out commands per behaviour
          MaxEdits,     \* user edits per behaviour
          Variant,      \* "lt" (jj's guard), "le" / "clean-le" (seeded bugs)
          Restores,     \* subset of {"RestoreOld1", "RestoreOld2"}: "restore an older copy" edits enabled
          Emit          \* TRUE: print complete behaviours for the replayer

VARIABLES st, hist, nco, ned

vars == <<st, hist, nco, ned>>

Ev(a, s2) == [a |-> a, t |-> s2.clock, own |-> s2.own, rm |-> s2.rm, seen |-> s2.mc]

Init == st = InitState /\ hist = <<>> /\ nco = 0 /\ ned = 0

Act(a) ==
  /\ Enabled(st, a, MaxClock)
  /\ a = "BeginCheckout" => nco < MaxCheckouts
  /\ a = "BeginSnapshot" => st.nsnap < MaxSnaps
  /\ a = "UserEdit" => ned < MaxEdits
  /\ a \in {"RestoreOld1", "RestoreOld2"} => (a \in Restores /\ ned < MaxEdits)
  /\ st' = Step(st, a, Variant)
  /\ hist' = Append(hist, Ev(a, st'))
  /\ nco' = IF a = "BeginCheckout" THEN nco + 1 ELSE nco
  /\ ned' = IF a \in {"UserEdit", "RestoreOld1", "RestoreOld2"} THEN ned + 1 ELSE ned

Next == \E a \in Actions : Act(a)
Spec == Init /\ [][Next]_vars

View == <<st, nco, ned>>

Inv_Seen == InvSeen(st)
Inv_Time == InvTime(st)

(* a behaviour is complete when the last snapshot command has saved *)
Done == st.cmd = "idle" /\ st.nsnap = MaxSnaps /\ hist # <<>> /\ hist[Len(hist)].a = "SaveState"
EmitInv == (Emit /\ Done) => PrintT(<<"REPLAY", ToJson(hist)>>)
=============================================================================
