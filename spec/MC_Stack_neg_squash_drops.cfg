SPECIFICATION Spec
CONSTANTS
  Paths = {"a", "b"}
  Contents = {2}
  MaxChange = 2
  Bug = "squash_drops"
  Emit = FALSE
  Directed = FALSE
  Shapes <- ShapesQuick
INVARIANTS InvLaws
CHECK_DEADLOCK FALSE
