------------------------------- MODULE Stack -------------------------------
(* C09: moving changes down a stack (squash into the parent, split, absorb) *)
(* never alters the snapshots above.                                        *)
(*                                                                          *)
(* Vocabulary.  A stack is a small commit graph: commits 1..n with ordered  *)
(* parents (0 = the root commit, empty tree), topologically numbered.  A    *)
(* tree maps each path to a merge (MergeAlgebra) of values: 1 = absent,     *)
(* values >= 2 are file contents (atomic: one-line files, so that jj's      *)
(* content merge is the trivial merge of the values).                       *)
(*                                                                          *)
(* REFERENCE TRANSCRIPTION: rebase (CommitRewriter::rebase: new tree =      *)
(* merge(old tree, old parent tree, new parent tree) path-wise: flatten,    *)
(* simplify, trivial resolution), parent tree of a merge commit,            *)
(* rebase_descendants in topological order, squash_commits, cmd_split,      *)
(* absorb (path granularity: a changed path goes to the nearest ancestor on *)
(* the first-parent chain that introduced the parent's value).              *)
(* CONTRACTS (judge both the model and the recorded CLI runs):              *)
(*   TopKeptOK, DescendantsKeptOK, OnlyBelowOK.                             *)
EXTENDS MergeAlgebra, Dag, TLC

CONSTANTS Paths, Contents     \* Contents: set of naturals >= 2

Abs == 1
ValuesT == Contents \cup {Abs}
EmptyTree == [q \in Paths |-> <<Abs>>]

(* ---- reference transcription ------------------------------------------ *)
Resolve(m) ==
  LET s == Simplify(m)
      t == TrivialCounting(s, TRUE)
  IN IF t # NoValue THEN <<t>> ELSE s
PathMerge3(old, oldBase, newBase) == Resolve(Flatten(<<old, oldBase, newBase>>))
RebaseTree(t, ob, nb) == [q \in Paths |-> PathMerge3(t[q], ob[q], nb[q])]

(* g = [par: [1..n -> Seq(0..n)], tree: [1..n -> tree]] *)
N(g) == Len(g.par)
TreeAt(trees, c) == IF c = 0 THEN EmptyTree ELSE trees[c]
(* graph including the root as node 0, for Dag's operators *)
ParR(par) == [c \in 0..Len(par) |-> IF c = 0 THEN <<>> ELSE par[c]]
Desc(par, c) == Descendants(ParR(par), c)          \* inclusive
Anc(par, c) == Ancestors(ParR(par), c)              \* inclusive

(* tree of the (auto-merged) parents of c: one parent, or two parents merged over *)
(* their greatest common ancestor                                               *)
ParentTree(par, trees, c) ==
  IF Len(par[c]) = 1 THEN TreeAt(trees, par[c][1])
  ELSE LET p1 == par[c][1]
           p2 == par[c][2]
           cas == CommonAncestors(ParR(par), {p1}, {p2})
           b == CHOOSE x \in cas : TRUE
       IN RebaseTree(TreeAt(trees, p1), TreeAt(trees, b), TreeAt(trees, p2))

(* rebase_descendants: direct = trees set explicitly by the command, par2 = new   *)
(* parents; every other commit is rebased in topological order.  Result: trees  *)
(* of all commits of par2's domain.                                            *)
RECURSIVE RebaseAll(_, _, _, _, _)
RebaseAll(g, par2, direct, acc, i) ==
  IF i > Len(par2) THEN acc
  ELSE LET t == IF i \in DOMAIN direct THEN direct[i]
                ELSE IF i > N(g) THEN EmptyTree
                ELSE RebaseTree(g.tree[i], ParentTree(g.par, g.tree, i), ParentTree(par2, acc, i))
       IN RebaseAll(g, par2, direct, Append(acc, t), i + 1)

(* commands: [k |-> "squash", x]            squash x into its only parent (whole commit)     *)
(*           [k |-> "squashp", x, sel]      move the changes of x in paths sel to the parent *)
(*           [k |-> "split", x, sel]        first commit gets the changes in sel             *)
(*           [k |-> "absorb", x]            absorb x's changes into its ancestors            *)
Selected(g, x, sel) ==      \* parent tree of x with the selected paths taken from x
  LET pt == ParentTree(g.par, g.tree, x) IN [q \in Paths |-> IF q \in sel THEN g.tree[x][q] ELSE pt[q]]
ChangedPaths(g, x) == {q \in Paths : g.tree[x][q] # ParentTree(g.par, g.tree, x)[q]}

Applicable(g, c) ==
  /\ c.x \in 1..N(g)
  /\ c.k \in {"squash", "squashp"} => Len(g.par[c.x]) = 1 /\ g.par[c.x][1] # 0
  /\ c.k = "squashp" => ~(ChangedPaths(g, c.x) \subseteq c.sel)    \* otherwise it is the whole squash

ReplaceIn(s, a, b) == [i \in 1..Len(s) |-> IF s[i] = a THEN b ELSE s[i]]

(* absorb: receiver of path q *)
RECURSIVE Receiver(_, _, _, _)
Receiver(g, a, q, v) ==      \* walk the first-parent chain from a looking for the commit that introduced v at q
  IF a = 0 THEN 0
  ELSE IF g.tree[a][q] # v THEN 0
  ELSE IF ParentTree(g.par, g.tree, a)[q] # v THEN a
  ELSE IF Len(g.par[a]) # 1 THEN 0      \* an unchanged merge: the blame would follow both parents (not modelled)
  ELSE Receiver(g, g.par[a][1], q, v)
AbsorbTargets(g, x) ==
  LET pt == ParentTree(g.par, g.tree, x) IN
  [q \in {p \in ChangedPaths(g, x) : Len(g.tree[x][p]) = 1 /\ Len(pt[p]) = 1
                                      /\ pt[p] # <<Abs>>     \* a deletion is absorbed too, an added file is not
                                      /\ Len(g.par[x]) = 1
                                      /\ Receiver(g, g.par[x][1], p, pt[p]) # 0}
     |-> Receiver(g, g.par[x][1], q, pt[q])]

(* result: [par, tree, gone, top] : graph after the command; gone = abandoned commits;       *)
(* top = the "topmost resulting commit" whose tree must equal x's old tree; a split appends  *)
(* the first commit as node n + 1 and keeps x as the second one                              *)
Run(g, c, bug) ==
  LET x == c.x
      n == N(g)
  IN IF c.k = "squash" THEN
       LET p == g.par[x][1]
           par2 == [i \in 1..n |-> ReplaceIn(g.par[i], x, p)]
           dt == RebaseTree(g.tree[p], ParentTree(g.par, g.tree, x), g.tree[x])
           direct == (p :> dt) @@ (x :> EmptyTree)
       IN [par |-> par2, tree |-> RebaseAll(g, par2, direct, <<>>, 1), gone |-> {x}, top |-> p]
     ELSE IF c.k = "squashp" THEN
       LET p == g.par[x][1]
           sel == Selected(g, x, c.sel)
           dt == RebaseTree(g.tree[p], ParentTree(g.par, g.tree, x), sel)
           direct == IF bug = "squash_drops"
                     THEN (p :> dt) @@ (x :> [q \in Paths |-> IF q \in c.sel THEN g.tree[p][q] ELSE g.tree[x][q]])
                     ELSE (p :> dt)
       IN [par |-> g.par, tree |-> RebaseAll(g, g.par, direct, <<>>, 1), gone |-> {}, top |-> x]
     ELSE IF c.k = "split" THEN
       LET first == n + 1
           par2 == [i \in 1..(n + 1) |-> IF i = first THEN g.par[x] ELSE IF i = x THEN <<first>> ELSE g.par[i]]
           second == IF bug = "split_second_rebased"
                     THEN RebaseTree(g.tree[x], ParentTree(g.par, g.tree, x), EmptyTree)
                     ELSE g.tree[x]
           direct == (first :> Selected(g, x, c.sel)) @@ (x :> second)
       IN [par |-> par2, tree |-> RebaseAll(g, par2, direct, <<>>, 1), gone |-> {}, top |-> x]
     ELSE
       LET tg == AbsorbTargets(g, x)
           recv == {tg[q] : q \in DOMAIN tg}
           direct0 == [a \in recv |-> [q \in Paths |-> IF q \in DOMAIN tg /\ tg[q] = a THEN g.tree[x][q] ELSE g.tree[a][q]]]
           pt == ParentTree(g.par, g.tree, x)
           direct == IF bug = "absorb_strips_source"   \* removes the absorbed hunks from the source, forgets to put it back on top
                     THEN direct0 @@ (x :> [q \in Paths |-> IF q \in DOMAIN tg THEN pt[q] ELSE g.tree[x][q]])
                     ELSE direct0 @@ (x :> g.tree[x])
       IN [par |-> g.par, tree |-> RebaseAll(g, g.par, direct, <<>>, 1), gone |-> {}, top |-> x]

(* ---- contracts -------------------------------------------------------- *)
(* before/after: tree per commit (any comparable token; "" / EmptyTree for gone commits).   *)
(* par: graph before the command; x: the source; top: topmost resulting commit.             *)
(* Trees are compared modulo the representation of conflicts (same signed multiset of terms  *)
(* at every path): SameTree.  The trace judge gets normalised tokens and uses plain equality *)
(* through the same contract operators (Eq is a parameter).                                  *)
SameTree(t, u) == \A q \in Paths : SameDenote(t[q], u[q])
TopKeptOK(Eq(_, _), before, after, x, top) == Eq(after[top], before[x])
DescendantsKeptOK(Eq(_, _), par, before, after, x) ==
  \A d \in Desc(par, x) \ {x} : Eq(after[d], before[d])
(* a commit that is neither an ancestor of x nor a descendant of a changed ancestor of x    *)
(* keeps its tree: only receivers and what sits on top of them get new content              *)
OnlyBelowOK(Eq(_, _), par, before, after, x, gone) ==
  LET changed == {c \in 1..Len(par) : c \notin gone /\ ~Eq(after[c], before[c])}
      sa == Anc(par, x) \ {x, 0}
  IN \A c \in changed : c \in sa \/ \E a \in sa \cap changed : c \in Desc(par, a)
=============================================================================
