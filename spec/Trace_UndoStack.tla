--------------------------- MODULE Trace_UndoStack ---------------------------
(* Judge for C41 sessions replayed through the real jj CLI (checks/c41.py). *)
(* One record per session:                                                  *)
(*   [op |-> "session", init |-> k, steps |-> << [a, k, ok, view, kind,     *)
(*     tgt, nops] ... >>]                                                   *)
(* a/k: the command; ok: did jj exit 0; view: the name of the view of the   *)
(* head operation after the command (= index of the first operation of the  *)
(* log with an identical view: heads, bookmarks, tags, remote refs and      *)
(* working-copy commits all equal); kind/tgt: what the new operation's      *)
(* description says ("undo"/"redo" + index of the operation restored to);   *)
(* nops: operations added by the step.                                      *)
(* The verdict uses only the abstract stack (the contract); the             *)
(* description-based transcription is compared as divergence.               *)
EXTENDS UndoStack, Json, IOUtils, TLC

Rec == ndJsonDeserialize(IOEnv.TRACE)

VARIABLE l

ContractOf(c) == IF c.a = "undo" THEN "UndoOK" ELSE IF c.a = "redo" THEN "RedoOK"
                 ELSE IF c.a = "restore" THEN "RestoreOK" ELSE IF c.a = "revert" THEN "RevertOK"
                 ELSE "FreshViewOK"

(* fold: acc = [st, log, views, v, div] *)
RECURSIVE Fold(_, _, _)
Fold(steps, i, acc) ==
  IF i > Len(steps) \/ acc.v # "ok" THEN acc
  ELSE
    LET s == steps[i]
        c == IF s.a = "restore" THEN [a |-> "restore", k |-> s.k] ELSE [a |-> s.a]
    IN IF s.a \notin {"op", "undo", "redo", "restore", "revert"} THEN [acc EXCEPT !.v = "harness:unknown-command"]
       ELSE IF s.a = "restore" /\ ~(s.k \in 1..Len(acc.views)) THEN [acc EXCEPT !.v = "harness:restore-target"]
       ELSE IF s.nops \notin {0, 1} \/ (~s.ok /\ s.nops # 0) THEN [acc EXCEPT !.v = "harness:opcount"]
       ELSE IF ~StepOK(acc.st, c, s.ok, s.view, acc.views) THEN [acc EXCEPT !.v = ContractOf(c)]
       ELSE
         LET log2 == ImplStep(acc.log, c, "none")
             same == IF Len(log2) > Len(acc.log)
                     THEN s.ok /\ s.nops = 1 /\ log2[Len(log2)].kind = s.kind /\ log2[Len(log2)].tgt = s.tgt
                     ELSE s.nops = 0 /\ s.ok = ImplOk(acc.log, c, "none")
             views2 == IF s.nops = 1 THEN Append(acc.views, s.view) ELSE acc.views
         IN Fold(steps, i + 1,
                 [st |-> [AbsStep(acc.st, c, acc.views) EXCEPT !.n = Len(views2)],
                  log |-> IF Len(log2) = Len(views2) THEN log2 ELSE ImplInit(Len(views2)),
                  views |-> views2,
                  v |-> "ok",
                  div |-> acc.div \/ ~same])

Judge(r) ==
  IF r.op # "session" THEN [v |-> "harness:unknown-op", div |-> FALSE]
  ELSE Fold(r.steps, 1, [st |-> AbsInit(r.init), log |-> ImplInit(r.init),
                         views |-> [i \in 1..r.init |-> i], v |-> "ok", div |-> FALSE])

Init == l = 1
Next ==
  \/ /\ l <= Len(Rec)
     /\ LET j == Judge(Rec[l]) IN
          /\ (IF j.v = "ok" THEN TRUE ELSE PrintT(<<"BAD", l, j.v>>))
          /\ (IF j.div THEN PrintT(<<"DIVERGES", l>>) ELSE TRUE)
     /\ l' = l + 1
  \/ /\ l = Len(Rec) + 1
     /\ PrintT(<<"JUDGED", Len(Rec)>>)
     /\ l' = l + 1
Spec == Init /\ [][Next]_l
=============================================================================
