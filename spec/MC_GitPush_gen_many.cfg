SPECIFICATION Spec
CONSTANTS
  NB = 1
  Par <- MC_Chain3
  OtherOnly = {}
  MaxSteps = 5
  MaxTerms = 5
  Emit = "stale"
  FillChoices <- MC_FillMany
  Bug = "none"
CONSTRAINT Small
VIEW View
INVARIANTS InvStep InvNoLostUpdate
CHECK_DEADLOCK FALSE
