----------------------------- MODULE GitIgnore -----------------------------
(* C28: which paths a stack of .gitignore files ignores                     *)
(* (lib/src/gitignore.rs GitIgnoreFile::chain / matches, and the directory  *)
(* walk of lib/src/local_working_copy.rs that applies them).                *)
(*                                                                          *)
(* Vocabulary.  A character is a one-character string.  A pattern LINE and  *)
(* a path COMPONENT are sequences of characters; a PATH is a non-empty      *)
(* sequence of components.  An ignore FILE is [prefix |-> path of the       *)
(* directory holding it (<<>> = root), lines |-> sequence of lines].  A     *)
(* STACK is a sequence of files, outermost first.                           *)
(*                                                                          *)
(* Pattern sub-language whose matching is DEFINED here: literals, `*`, `?`, *)
(* `**` bounded by slashes, leading `/`, middle `/`, trailing `/`, leading  *)
(* `!`, backslash escapes, comments, unescaped trailing spaces.  No         *)
(* character classes.  (The glob engine jj uses is the third-party          *)
(* gix_ignore; this is the contract it has to meet on that sub-language.)   *)
EXTENDS Naturals, Sequences, FiniteSets

Last(s) == s[Len(s)]
Front(s) == SubSeq(s, 1, Len(s) - 1)

(* ---- a line -> a pattern ---------------------------------------------- *)
(* trailing spaces are dropped unless the last one is escaped *)
RECURSIVE StripSpaces(_)
StripSpaces(l) ==
  IF l = <<>> THEN l
  ELSE IF Last(l) = " " /\ ~(Len(l) >= 2 /\ l[Len(l) - 1] = "\\") THEN StripSpaces(Front(l))
  ELSE l

(* does the pattern text contain a slash (not counting escapes of other chars) *)
HasSlash(p) == \E i \in 1..Len(p) : p[i] = "/"

NoPattern == [none |-> TRUE]
Parse(line) ==
  LET l1 == StripSpaces(line) IN
  IF l1 = <<>> \/ l1[1] = "#" THEN NoPattern
  ELSE LET neg == l1[1] = "!"
           l2  == IF neg THEN Tail(l1) ELSE l1
       IN IF l2 = <<>> THEN NoPattern
          ELSE LET dironly == Last(l2) = "/"
                   l3 == IF dironly THEN Front(l2) ELSE l2
               IN IF l3 = <<>> THEN NoPattern
                  ELSE [none |-> FALSE, neg |-> neg, dironly |-> dironly,
                        anchored |-> HasSlash(l3),
                        pat |-> IF l3[1] = "/" THEN Tail(l3) ELSE l3]

(* ---- wildmatch with WM_PATHNAME on character sequences ----------------- *)
StarEnd(p, i) == (* first index after the run of stars that starts at i *)
  CHOOSE k \in (i + 1)..(Len(p) + 1) :
      /\ \A q \in i..(k - 1) : p[q] = "*"
      /\ (k = Len(p) + 1 \/ p[k] # "*")

RECURSIVE WM(_, _, _, _)
WM(p, i, t, j) ==
  IF i > Len(p) THEN j > Len(t)
  ELSE LET c == p[i] IN
    IF c = "\\" /\ i < Len(p) THEN j <= Len(t) /\ t[j] = p[i + 1] /\ WM(p, i + 2, t, j + 1)
    ELSE IF c = "?" THEN j <= Len(t) /\ t[j] # "/" /\ WM(p, i + 1, t, j + 1)
    ELSE IF c = "*" THEN
      LET k == StarEnd(p, i)
          bounded == /\ k - i >= 2
                     /\ (i = 1 \/ p[i - 1] = "/")
                     /\ (k > Len(p) \/ p[k] = "/")
      IN IF bounded
         THEN \/ (k <= Len(p) /\ WM(p, k + 1, t, j))              \* "**/" matches no directory
              \/ \E m \in j..(Len(t) + 1) : WM(p, k, t, m)        \* "**" crosses slashes
         ELSE \E m \in j..(Len(t) + 1) :
                 /\ \A q \in j..(m - 1) : t[q] # "/"              \* "*" stays in one component
                 /\ WM(p, k, t, m)
    ELSE j <= Len(t) /\ t[j] = c /\ WM(p, i + 1, t, j + 1)

Glob(p, t) == WM(p, 1, t, 1)

RECURSIVE JoinPath(_)
JoinPath(path) ==
  IF Len(path) = 1 THEN path[1] ELSE path[1] \o <<"/">> \o JoinPath(Tail(path))

(* ---- one pattern against a path relative to its file ------------------- *)
PatMatches(P, rel, isdir) ==
  /\ ~P.none
  /\ (P.dironly => isdir)
  /\ IF P.anchored THEN Glob(P.pat, JoinPath(rel)) ELSE Glob(P.pat, Last(rel))

(* ---- one file: the last matching line decides -------------------------- *)
MatchingLines(lines, rel, isdir) == {i \in 1..Len(lines) : PatMatches(Parse(lines[i]), rel, isdir)}
FileVerdict(lines, rel, isdir) ==          \* "ignore" | "include" | "none"
  LET M == MatchingLines(lines, rel, isdir) IN
  IF M = {} THEN "none"
  ELSE LET i == CHOOSE x \in M : \A y \in M : y <= x
       IN IF Parse(lines[i]).neg THEN "include" ELSE "ignore"

(* ---- the stack: the innermost file that has an opinion decides --------- *)
IsProperPrefix(pre, path) == Len(pre) < Len(path) /\ SubSeq(path, 1, Len(pre)) = pre
Rel(pre, path) == SubSeq(path, Len(pre) + 1, Len(path))
Opinions(stack, path, isdir) ==
  {k \in 1..Len(stack) :
      /\ IsProperPrefix(stack[k].prefix, path)
      /\ FileVerdict(stack[k].lines, Rel(stack[k].prefix, path), isdir) # "none"}
Decide(stack, path, isdir) ==              \* exact match of this path only
  LET O == Opinions(stack, path, isdir) IN
  IF O = {} THEN FALSE
  ELSE LET k == CHOOSE x \in O : \A y \in O : y <= x
       IN FileVerdict(stack[k].lines, Rel(stack[k].prefix, path), isdir) = "ignore"

(* CONTRACT: a path is ignored iff it matches, or it lies under an ignored  *)
(* directory (nothing inside an ignored directory can be re-included).      *)
Ignored(stack, path, isdir) ==
  \/ Decide(stack, path, isdir)
  \/ \E k \in 1..(Len(path) - 1) : Decide(stack, SubSeq(path, 1, k), TRUE)

(* REFERENCE TRANSCRIPTION of the snapshot walk (visit_directory /          *)
(* process_dir_entry): descend from the root; entering directory D loads    *)
(* D's ignore file on top of the chain; an ignored directory is not entered.*)
RECURSIVE Walk(_, _, _, _, _)
Walk(all, chain, path, isdir, k) ==       \* k = number of components already entered
  LET here == SubSeq(path, 1, k)
      chain2 == chain \o SelectSeq(all, LAMBDA f : f.prefix = here)
  IN IF k + 1 = Len(path) THEN Decide(chain2, path, isdir)
     ELSE IF Decide(chain2, SubSeq(path, 1, k + 1), TRUE) THEN TRUE
     ELSE Walk(all, chain2, path, isdir, k + 1)
WalkIgnored(stack, path, isdir) == Walk(stack, <<>>, path, isdir, 0)
=============================================================================
