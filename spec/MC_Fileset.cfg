SPECIFICATION Spec
CONSTANTS
  Comps = {"a", "ab", "A"}
  MaxDepth = 3
  MaxToks = 2
  MaxNest = 3
  Samples = 200
  Bug = "none"
  Emit = TRUE
INVARIANTS InvAlgebra InvConfinedToCwd EmitInv
CHECK_DEADLOCK FALSE
