SPECIFICATION Spec
CONSTANTS
  MaxName = 3
  MaxRef = 5
  Bug = "none"
  Emit = TRUE
INVARIANTS InvExportParse InvParseExport InvInjective EmitInv
CHECK_DEADLOCK FALSE
