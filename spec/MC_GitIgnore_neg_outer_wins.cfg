SPECIFICATION Spec
CONSTANTS
  Vocab <- MC_Vocab12
  Paths <- MC_Paths
  SubDir <- MC_SubDir
  MaxRoot = 1
  MaxSub = 1
  Bug = "outer_wins"
INVARIANTS InvInnerFileWins
CHECK_DEADLOCK FALSE
