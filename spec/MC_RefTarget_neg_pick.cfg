SPECIFICATION Spec
CONSTANTS
  MaxConflicted = 1
  Bug = "pick"
INVARIANTS InvRefMerge InvFixpoint
CHECK_DEADLOCK FALSE
