SPECIFICATION Spec
CONSTANTS
  WS = {"w1", "w2"}
  Trees = {1}
  MaxCmds = 2
  MaxCommits = 8
  MaxOps = 7
  Kinds = {"mut", "ro", "atop"}
  WithImm = TRUE
  AllowAbsentWs = FALSE
  Bug = "none"
CONSTRAINT Bound
INVARIANTS InvNoLoss InvAtOp InvImmutable InvOpsReachable InvWcState
CHECK_DEADLOCK FALSE
