---------------------------- MODULE Trace_WcMtime ----------------------------
(* Judge for C26 (S->I observations, I->S style validation).  One record =  *)
(* one TLC-generated behaviour of WcMtime replayed on a real working copy   *)
(* with forced mtimes:                                                      *)
(*   steps : the model actions  [a, t]  (t = model clock after the action)  *)
(*   obs   : per step what the implementation did:                          *)
(*           seen  = content version the snapshot recorded (SnapStat)       *)
(*           saved = the tree_state file was really rewritten (SaveState)   *)
(*           disk  = content version on disk after the step                 *)
(*           touched = tree_state was not rewritten but its mtime changed    *)
(* The judge re-runs the SAME action operators of WcMtime along the steps   *)
(* (so the ghost `must` is the model's, not the harness's) and evaluates    *)
(* the contract SeenOK on what the implementation reported.                 *)
EXTENDS WcMtime, Json, IOUtils, TLC

Rec == ndJsonDeserialize(IOEnv.TRACE)

VARIABLE l

BigClock == 1000

(* fold the model along the steps; acc = [s, bad, div]                      *)
RECURSIVE Run(_, _, _)
Run(r, i, acc) ==
  IF i > Len(r.steps) \/ acc.bad # "ok" THEN acc
  ELSE
    LET a == r.steps[i].a
        o == r.obs[i]
        s == acc.s
    IN IF a \notin Actions \/ ~Enabled(s, a, BigClock) THEN [acc EXCEPT !.bad = "harness:not-a-behaviour"]
       ELSE
         LET s2 == Step(s, a, "lt") IN
         IF s2.clock # r.steps[i].t THEN [acc EXCEPT !.bad = "harness:clock"]
         ELSE IF o.disk # s2.dc THEN [acc EXCEPT !.bad = "harness:disk-content"]
         ELSE IF a = "SnapStat" THEN
           IF ~SeenOK(s.must, s.dc, o.seen) THEN [acc EXCEPT !.bad = "SeenOK"]
           ELSE IF o.seen \notin {s.mc, s.dc} THEN [acc EXCEPT !.bad = "SeenIsRecordedOrDisk"]
           ELSE
             \* follow the implementation: if it re-read the file, the recorded
             \* state is the disk's
             LET s3 == IF o.seen = s2.mc THEN s2
                       ELSE IF o.seen = s.dc THEN [s2 EXCEPT !.mm = s.dm, !.mc = s.dc]
                       ELSE [s2 EXCEPT !.mc = s.mc, !.mm = s.mm]
             IN Run(r, i + 1, [acc EXCEPT !.s = s3, !.div = acc.div \/ o.seen # s2.mc])
         ELSE IF a = "SaveState" THEN
           \* follow the implementation on whether the state file was rewritten
           LET s3 == IF o.saved = Dirty(s) THEN s2
                     ELSE IF o.saved THEN [s EXCEPT !.rm = s.mm, !.rc = s.mc, !.own = s.clock, !.cmd = "idle"]
                     ELSE [s EXCEPT !.cmd = "idle"]
           \* o.touched: the state file was not rewritten but its mtime moved (reported as divergence)
           IN Run(r, i + 1, [acc EXCEPT !.s = s3, !.div = acc.div \/ o.saved # Dirty(s) \/ o.touched])
         ELSE Run(r, i + 1, [acc EXCEPT !.s = s2])

Judge(r) ==
  IF r.op = "panic" THEN [bad |-> "Panic", div |-> FALSE]
  ELSE IF r.op # "mtime" THEN [bad |-> "harness:unknown-op", div |-> FALSE]
  ELSE IF Len(r.steps) # Len(r.obs) THEN [bad |-> "harness:length", div |-> FALSE]
  ELSE LET x == Run(r, 1, [s |-> InitState, bad |-> "ok", div |-> FALSE])
       IN [bad |-> x.bad, div |-> x.div]

Init == l = 1
Next ==
  \/ /\ l <= Len(Rec)
     /\ LET v == Judge(Rec[l]) IN
          /\ (IF v.bad = "ok" THEN TRUE ELSE PrintT(<<"BAD", l, v.bad>>))
          /\ (IF v.div THEN PrintT(<<"DIVERGES", l>>) ELSE TRUE)
     /\ l' = l + 1
  \/ /\ l = Len(Rec) + 1
     /\ PrintT(<<"JUDGED", Len(Rec)>>)
     /\ l' = l + 1
Spec == Init /\ [][Next]_l
=============================================================================
