---------------------------- MODULE MC_Bisect ----------------------------
(* C37 design-level check and S->I generator.  A behaviour builds a graph   *)
(* node by node, picks a range, a monotone bad set (and a skip set), then   *)
(* runs the Bisect machine with EVERY admissible choice of the next commit  *)
(* (Engine = "any") or with the transcribed middle pick (Engine = "ref").   *)
EXTENDS Bisect, TLC, Json

CONSTANTS MaxNodes, Shape, SubRanges, WithSkips, Engine, ExcludeFinding, Bug, Emit

VARIABLES dag, phase      \* the graph under construction; "build" | "run"
vars == <<dag, phase, p, good, bad, skipped, evals, result>>

N == Len(dag)
ParentChoices == IF Shape = "linear" THEN (IF N = 0 THEN {<<>>} ELSE {<<N>>})
                 ELSE {<<>>} \cup {<<a>> : a \in 1..N} \cup {s \in (1..N) \X (1..N) : s[1] < s[2]}

Dummy == [par |-> <<>>, rng |-> {}, X |-> {}, S |-> {}]

Init == /\ dag = <<>> /\ phase = "build"
        /\ p = Dummy /\ good = {} /\ bad = {} /\ skipped = {} /\ evals = <<>> /\ result = NoResult

AddNode == /\ phase = "build" /\ N < MaxNodes
           /\ \E ps \in ParentChoices : dag' = Append(dag, ps)
           /\ UNCHANGED <<phase, p, good, bad, skipped, evals, result>>

RangesOf(par) ==
  {DOMAIN par} \cup
  (IF SubRanges THEN {Range(par, {g}, {h}) : g, h \in DOMAIN par} \ {{}} ELSE {})
UpSets(par, rng) == {X \in SUBSET rng : Heads(par, rng) \subseteq X /\ MonotoneBad(par, rng, X)}
SkipSets(rng) == IF WithSkips THEN {S \in SUBSET rng : Cardinality(S) <= 2} ELSE {{}}

Start == /\ phase = "build" /\ N >= 1
         /\ \E rng \in RangesOf(dag) : \E X \in UpSets(dag, rng) : \E S \in SkipSets(rng) :
               BStart([par |-> dag, rng |-> rng, X |-> X, S |-> S])
         /\ phase' = "run"
         /\ UNCHANGED dag

(* seeded design bugs *)
BugCandidates == IF Bug = "keepbad" THEN Candidates(p, good, {c \in bad : c \in Heads(p.par, p.rng)}, skipped) \ Heads(p.par, p.rng)
                 ELSE Candidates(p, good, bad, skipped)
BugResult == IF Bug = "heads" THEN [RefResult(p, bad, skipped) EXCEPT !.bad = Heads(p.par, bad)]
             ELSE RefResult(p, bad, skipped)

Step == /\ phase = "run" /\ result.kind = "none"
        /\ LET C == BugCandidates IN
           IF C = {} THEN /\ result' = BugResult
                          /\ UNCHANGED <<p, good, bad, skipped, evals>>
           ELSE /\ \E c \in (IF Engine = "ref" THEN {RefPick(C)} ELSE C) : Mark(c)
                /\ UNCHANGED <<p, result>>
        /\ UNCHANGED <<dag, phase>>

Next == AddNode \/ Start \/ Step
Spec == Init /\ [][Next]_vars

Finished == phase = "run" /\ result.kind # "none"

InvNoRepeat == phase = "run" => NoRepeat(evals) /\ AsksInsideRange(p, evals)

InvVerdict ==
  Finished =>
    LET v == RunVerdict(p, evals, result) IN
    \/ v = "ok"
    \/ ExcludeFinding /\ v = "ReportsAllFirstBad" /\ TwoFirstBadUnderOneHead(p)
    \/ Engine = "any" /\ v = "LogStepsOnLinearRange"        \* the step bound is a property of the pick rule

(* every run ends: each question removes its commit from the candidates *)
InvProgress == phase = "run" => Len(evals) <= Cardinality(p.rng)

SeqAsc(S) == LET d == SeqDescending(S) IN [i \in 1..Len(d) |-> d[Len(d) + 1 - i]]
EmitInv ==
  (Emit /\ phase = "run" /\ evals = <<>> /\ result.kind = "none") =>
     PrintT(<<"REPLAY", ToJson([par |-> p.par, rng |-> SeqAsc(p.rng), X |-> SeqAsc(p.X), S |-> SeqAsc(p.S)])>>)
=============================================================================
