SPECIFICATION Spec
CONSTANTS
  Normal = {"a", "ab", "uu"}
  Base <- MC_Base
  MaxLen = 3
  Bug = "nopop"
  Emit = FALSE
INVARIANTS InvParse InvToFs InvRoundTrip InvIdem EmitInv
CHECK_DEADLOCK FALSE
