SPECIFICATION Spec
CONSTANTS
  Paths <- StdPaths
  PathOrder <- StdPathOrder
  IgnoreVocab <- StdIgnoreVocab
  Bug = "none"
  MaxSteps = 7
  MaxEditRun = 3
  Acts = {"Write", "Delete", "Mkfifo", "FileToDir", "DirToFile", "RmTree", "Snapshot", "CheckOut"}
  EditPaths <- InsideIgnoredPaths
  Contents = {1, 2}
  SymTargets = {"out"}
  RootIgnore = {}
  DirIgnore = {}
  TreeIds = {11, 12}
  SparseIds = {}
  XP = "respect"
  Strict = "none"
  Emit = FALSE
INVARIANTS Inv_Contracts Inv_NoStrayMarker Inv_TreeWellFormed Inv_Outside
VIEW View
CHECK_DEADLOCK FALSE
