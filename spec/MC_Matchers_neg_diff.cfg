SPECIFICATION Spec
CONSTANTS
  Comps = {"a", "ab", "A"}
  MaxDepth = 3
  MaxNest = 1
  Bug = "diff"
  Emit = FALSE
  Samples = 0
  EmitMod = 1
INVARIANTS InvVisit EmitInv
CHECK_DEADLOCK FALSE
