--------------------------- MODULE MergeAlgebra ---------------------------
(* The algebra of jj's Merge<T> (lib/src/merge.rs).                         *)
(*                                                                          *)
(* A merge is an odd-length sequence of values; 1-based odd positions are   *)
(* "adds" (sides), even positions are "removes" (bases).  Its meaning is    *)
(* the signed multiset Denote(m): #adds of v - #removes of v.               *)
(*                                                                          *)
(* Two kinds of definitions are kept apart (DESIGN 2.3):                    *)
(*   - CONTRACTS (…OK): what properties C01/C02 demand of any               *)
(*     implementation.  Only a contract failure is a violation.             *)
(*   - REFERENCE TRANSCRIPTIONS (Simplify, Flatten, TrivialRef, …): the     *)
(*     algorithm jj uses today, transcribed so that TLC can show the design *)
(*     meets the contracts (MC_MergeAlgebra) and so that differences that   *)
(*     do not break a contract can be reported as divergence.               *)
EXTENDS Naturals, Integers, Sequences, FiniteSets

Odd(n) == n % 2 = 1
IsMerge(m) == Odd(Len(m))

AddPos(m) == {i \in 1..Len(m) : Odd(i)}
RemPos(m) == {i \in 1..Len(m) : ~Odd(i)}
Vals(m)   == {m[i] : i \in 1..Len(m)}

Count(m, v) == Cardinality({i \in AddPos(m) : m[i] = v})
             - Cardinality({i \in RemPos(m) : m[i] = v})

(* Two merges denote the same signed multiset. *)
SameDenote(a, b) == \A v \in Vals(a) \cup Vals(b) : Count(a, v) = Count(b, v)

Min(S) == CHOOSE x \in S : \A y \in S : x <= y

---------------------------------------------------------------------------
(* Reference transcription of Merge::get_simplified_mapping.  idx is the    *)
(* vector simplified_to_original_indices (1-based), ai the current add.     *)
RECURSIVE SimpMap(_, _, _)
SimpMap(m, idx, ai) ==
  IF ai > Len(idx) THEN idx
  ELSE LET cands == {r \in 1..Len(idx) : ~Odd(r) /\ m[idx[r]] = m[idx[ai]]}
       IN IF cands = {} THEN SimpMap(m, idx, ai + 2)
          ELSE LET r  == Min(cands)                    \* first equal remove
                   sw == [idx EXCEPT ![r + 1] = idx[ai], ![ai] = idx[r + 1]]
               IN SimpMap(m, SubSeq(sw, 1, r - 1) \o SubSeq(sw, r + 2, Len(sw)), ai)

SimplifiedMapping(m) == SimpMap(m, [i \in 1..Len(m) |-> i], 1)
Simplify(m) == LET mp == SimplifiedMapping(m) IN [i \in 1..Len(mp) |-> m[mp[i]]]
UpdateFromSimplified(m, e) ==
  LET mp == SimplifiedMapping(m)
  IN [i \in 1..Len(m) |->
        IF \E j \in 1..Len(mp) : mp[j] = i
        THEN e[CHOOSE j \in 1..Len(mp) : mp[j] = i] ELSE m[i]]

(* Merge<Merge<T>>::flatten: a removed inner merge is rotated left by one   *)
(* and its pairs (2i-1, 2i) are swapped, so adds become removes.            *)
FlipRemove(b) ==
  LET n == Len(b)
      rot == [i \in 1..n |-> IF i < n THEN b[i + 1] ELSE b[1]]
  IN [i \in 1..n |-> IF i = n THEN rot[n] ELSE IF Odd(i) THEN rot[i + 1] ELSE rot[i - 1]]

RECURSIVE FlattenFrom(_, _)
FlattenFrom(mm, i) ==
  IF i > Len(mm) THEN <<>>
  ELSE (IF Odd(i) THEN mm[i] ELSE FlipRemove(mm[i])) \o FlattenFrom(mm, i + 1)
Flatten(mm) == FlattenFrom(mm, 1)

(* trivial_merge: NoValue (0) means "not resolved".  Values are >= 1.       *)
NoValue == 0
NonZero(m) == {v \in Vals(m) : Count(m, v) # 0}
Pos(m) == {v \in Vals(m) : Count(m, v) > 0}
Neg(m) == {v \in Vals(m) : Count(m, v) < 0}

(* the counting path *)
TrivialCounting(m, accept) ==
  LET nz == NonZero(m)
  IN IF Cardinality(nz) = 1 THEN CHOOSE v \in nz : TRUE
     ELSE IF Cardinality(nz) = 2 /\ accept THEN CHOOSE v \in nz : Count(m, v) > 0
     ELSE NoValue
(* the 1- and 3-term fast path *)
TrivialFast(m, accept) ==
  IF Len(m) = 1 THEN m[1]
  ELSE IF m[1] = m[3] /\ accept THEN m[1]
  ELSE IF m[1] = m[2] THEN m[3]
  ELSE IF m[3] = m[2] THEN m[1]
  ELSE NoValue
TrivialRef(m, accept) == IF Len(m) <= 3 THEN TrivialFast(m, accept) ELSE TrivialCounting(m, accept)

---------------------------------------------------------------------------
(* CONTRACTS                                                                *)

(* C01: o is an acceptable simplification of m.                             *)
NoValueBothSides(o) == \A i \in AddPos(o), j \in RemPos(o) : o[i] # o[j]
SimplifyOK(m, o) ==
  /\ IsMerge(o)
  /\ Len(o) <= Len(m)
  /\ SameDenote(m, o)
  /\ NoValueBothSides(o)

(* C01: r is m with the edit e (made on the simplified form s of m) written *)
(* back: every position of e lands on a position of m of the same parity    *)
(* that held the corresponding simplified value, every other position of m  *)
(* is untouched.  The harness makes the values of e fresh (not in m), so    *)
(* the landing position of e[j] is identifiable.                            *)
WriteBackOK(m, s, e, r) ==
  /\ Len(r) = Len(m) /\ Len(e) = Len(s)
  /\ \A j \in 1..Len(e) :
        \E i \in 1..Len(r) : /\ r[i] = e[j] /\ Odd(i) = Odd(j) /\ m[i] = s[j]
                             /\ \A k \in 1..Len(r) : r[k] = e[j] => k = i
  /\ Cardinality({i \in 1..Len(r) : r[i] # m[i]}) = Len(e)

(* C01: flattening keeps the meaning: adds of added inner merges and        *)
(* removes of removed inner merges count positively, the rest negatively.   *)
RECURSIVE NestedCount(_, _, _)
NestedCount(mm, v, i) ==
  IF i > Len(mm) THEN 0
  ELSE (IF Odd(i) THEN Count(mm[i], v) ELSE 0 - Count(mm[i], v)) + NestedCount(mm, v, i + 1)
RECURSIVE TotalLen(_, _)
TotalLen(mm, i) == IF i > Len(mm) THEN 0 ELSE Len(mm[i]) + TotalLen(mm, i + 1)
NestedVals(mm) == UNION {Vals(mm[i]) : i \in 1..Len(mm)}
FlattenOK(mm, o) ==
  /\ Len(o) = TotalLen(mm, 1)
  /\ \A v \in NestedVals(mm) \cup Vals(o) : Count(o, v) = NestedCount(mm, v, 1)

(* C02: the cancellation rule.  out = NoValue means unresolved.             *)
(*  - exactly one value survives cancellation (count +1): MUST resolve to it*)
(*  - same-change rule enabled and exactly two values survive, one          *)
(*    positive: MUST resolve to the positive one ("sides that all agree"    *)
(*    with a single base left)                                              *)
(*  - two or more distinct surviving sides: MUST NOT resolve                *)
(*  - same-change rule disabled: resolve only in the first case             *)
(*  - remaining zone (same-change on, one surviving side value, two or more *)
(*    distinct surviving bases): either answer is allowed by the statement; *)
(*    a resolution must still be to the single surviving side               *)
MustResolve(m, accept) ==
  \/ (Cardinality(NonZero(m)) = 1)
  \/ (accept /\ Cardinality(NonZero(m)) = 2 /\ Cardinality(Pos(m)) = 1)
MustNotResolve(m, accept) ==
  \/ Cardinality(Pos(m)) >= 2
  \/ (~accept /\ Cardinality(NonZero(m)) # 1)
TrivialOK(m, accept, out) ==
  /\ MustResolve(m, accept) => out # NoValue
  /\ MustNotResolve(m, accept) => out = NoValue
  /\ out # NoValue => Pos(m) = {out}
===========================================================================
