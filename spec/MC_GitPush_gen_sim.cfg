SPECIFICATION Spec
CONSTANTS
  NB = 2
  Par <- MC_Par4
  OtherOnly = {4}
  MaxSteps = 6
  MaxTerms = 5
  Emit = "done"
  FillChoices <- MC_Fill0
  Bug = "none"
CONSTRAINT Small
INVARIANTS InvStep InvNoLostUpdate EmitInv
CHECK_DEADLOCK FALSE
