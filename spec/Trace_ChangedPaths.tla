------------------------- MODULE Trace_ChangedPaths -------------------------
(* I->S judge for C22.  A record ("cpobs", jjconf `index cp-hist|cp-long`)   *)
(* is one observation of a real repository whose changed-path index was      *)
(* enabled at the start, in the middle (possibly for part of the history,    *)
(* build_changed_path_index_at_operation with max_commits), at the end, or   *)
(* never: for every indexed commit what Index::changed_paths_in_commit       *)
(* returned, and the result of the files(p) revsets.  Trees are logged as    *)
(* written (value 0 = absent, k = content k); TLC computes ChangedPaths from *)
(* the graph and the trees.                                                  *)
EXTENDS ChangedPaths, Json, IOUtils, TLC

Rec == ndJsonDeserialize(IOEnv.TRACE)

VARIABLE l

FirstBad(r) ==
  LET n == Len(r.par)
      G == [c \in 0..n |-> IF c = 0 THEN <<>> ELSE r.par[c]]
      np == IF n = 0 THEN 0 ELSE Len(r.trees[1])
      tr == [c \in 1..n |-> [p \in 1..np |-> r.trees[c][p] + 1]]
      K == CpSeqToSet(r.known)
      VH == CpSeqToSet(r.vheads)
      vis == AncOf(G, VH)
  IN
  IF ~(K \subseteq DOMAIN G) \/ ~(VH \subseteq DOMAIN G) \/ ~TopoNumbered(G) THEN "harness:bad-ids"
  ELSE IF \E i \in 1..Len(r.cp) : r.cp[i][2] /\ ~RecordedOK(G, tr, np, r.cp[i][1], r.cp[i][3]) THEN "RecordedOK"
  ELSE IF \E i \in 1..Len(r.files) : ~FilesOK(G, tr, np, vis, r.files[i].p, r.files[i].out) THEN "FilesOK"
  ELSE "ok"

Verdict(r) ==
  IF r.op = "cpobs" THEN FirstBad(r)
  ELSE IF r.op = "panic" THEN "Panic"
  ELSE "harness:unknown-op"

Init == l = 1
Next ==
  \/ /\ l <= Len(Rec)
     /\ LET v == Verdict(Rec[l]) IN (IF v = "ok" THEN TRUE ELSE PrintT(<<"BAD", l, v>>))
     /\ l' = l + 1
  \/ /\ l = Len(Rec) + 1
     /\ PrintT(<<"JUDGED", Len(Rec)>>)
     /\ l' = l + 1
Spec == Init /\ [][Next]_l
=============================================================================
