SPECIFICATION Spec
CONSTANTS
  Slots = 2
  Values = {1, 2, 3}
  MaxTerms = 5
  Bug = "none"
INVARIANTS InvPartition InvLaws InvSlotwise
CHECK_DEADLOCK FALSE
