SPECIFICATION Spec
CONSTANTS
  LF = {0, 10, 20}
  LD = {0, 10}
  LX = {0, 10, 20}
  LY = {0}
  MaxCommits = 3
  MaxParents = 2
  Accepts = {TRUE, FALSE}
  Emit = FALSE
  Bug = "roundtrip"
  ExcludeShortcut = TRUE
INVARIANTS InvLaws InvIdentity InvRoundTrip EmitInv
CHECK_DEADLOCK FALSE
