SPECIFICATION Spec
CONSTANTS
  MaxNodes = 6
  Shape = "any"
  SubRanges = FALSE
  WithSkips = FALSE
  Engine = "any"
  ExcludeFinding = TRUE
  Bug = "none"
  Emit = TRUE
INVARIANTS InvNoRepeat InvVerdict InvProgress EmitInv
CHECK_DEADLOCK FALSE
