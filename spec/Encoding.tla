------------------------------ MODULE Encoding ------------------------------
(* C16 / C17: the value spaces that jj's stores encode, and the laws their  *)
(* encodings must satisfy.                                                  *)
(*                                                                          *)
(*  - View / Operation (lib/src/op_store.rs) and the protobuf form that     *)
(*    SimpleOpStore writes (lib/src/simple_op_store.rs): local bookmarks    *)
(*    only exist in the *legacy bookmark form* (one entry per bookmark name *)
(*    joining the local target with the remote bookmarks of that name);     *)
(*    remote views are written twice (legacy + new form) and read from the  *)
(*    new form unless it is empty.                                          *)
(*  - the ContentHash byte stream (lib/src/content_hash.rs) as an abstract  *)
(*    token stream: length-prefixed collections, tagged options.            *)
(*  - Commit (lib/src/backend.rs) and what the Git backend can store        *)
(*    (whole seconds, placeholder for empty names).                         *)
(*                                                                          *)
(* CONTRACTS (…OK) state C16/C17.  The REFERENCE TRANSCRIPTIONS (ToLegacy,  *)
(* FromLegacy, EncodeView, DecodeView, Hash…, GitStored…) describe today's  *)
(* algorithm; TLC shows they meet the laws (MC_Encoding) and the trace      *)
(* judge reports differences that do not break a contract as divergence.    *)
(*                                                                          *)
(* Representation (chosen so that the same values travel as JSON):          *)
(*   commit / view / op ids   short strings ("c1", "v1", "o1")              *)
(*   ref target               odd-length sequence of ids, "" = absent term; *)
(*                            <<>> = "no entry in the map"                  *)
(*   maps over a fixed key universe: total functions, <<>> / "" = no entry  *)
(*   Option<T>                <<>> = None, <<x>> = Some(x)                  *)
(*   strings of the real value are *class tokens* ("empty", "ascii", …)     *)
(*   that the harness concretises and projects back                         *)
EXTENDS Naturals, Integers, Sequences, FiniteSets

CONSTANT Bug       \* "none", or the name of a seeded design bug (negative configs)

Absent   == ""
NoEntry  == <<>>
Commits      == {"c1", "c2", "c3"}
Names        == {"b1", "b2"}
NameOrder    == <<"b1", "b2">>
Remotes      == {"git", "origin"}
RemoteOrder  == <<"git", "origin">>
GitRefNames  == {"refs/heads/b1", "refs/tags/b2"}
GitRefOrder  == <<"refs/heads/b1", "refs/tags/b2">>
Workspaces   == {"default", "ws2"}
WorkspaceOrder == <<"default", "ws2">>
CommitOrder  == <<"c1", "c2", "c3">>

Odd(n) == n % 2 = 1
IsTarget(t) == Odd(Len(t)) /\ \A i \in 1..Len(t) : t[i] \in Commits \cup {Absent}
AbsentTarget == <<Absent>>
NoRRef == [t |-> NoEntry, s |-> ""]
IsRRef(x) == x = NoRRef \/ (IsTarget(x.t) /\ x.s \in {"new", "tracked"})
Range(f) == {f[x] : x \in DOMAIN f}

---------------------------------------------------------------------------
(* VIEW                                                                     *)
(*  [heads    : SUBSET Commits,                                             *)
(*   local    : [Names -> target | NoEntry],                                *)
(*   tags     : [Names -> target | NoEntry],                                *)
(*   remotes  : [Remotes -> [present, bookmarks: [Names -> RRef],           *)
(*                                    tags: [Names -> RRef]]],              *)
(*   gitRefs  : [GitRefNames -> target | NoEntry],                          *)
(*   gitHeads : [Workspaces -> target | NoEntry],                           *)
(*   wc       : [Workspaces -> Commits \cup {""}]]                          *)

EmptyRemote == [present |-> FALSE, bookmarks |-> [n \in Names |-> NoRRef], tags |-> [n \in Names |-> NoRRef]]

WellFormedView(v) ==
  /\ v.heads \subseteq Commits
  /\ \A n \in Names : (v.local[n] = NoEntry \/ IsTarget(v.local[n])) /\ (v.tags[n] = NoEntry \/ IsTarget(v.tags[n]))
  /\ \A r \in Remotes : /\ \A n \in Names : IsRRef(v.remotes[r].bookmarks[n]) /\ IsRRef(v.remotes[r].tags[n])
                        /\ ~v.remotes[r].present => v.remotes[r] = EmptyRemote
  /\ \A g \in GitRefNames : v.gitRefs[g] = NoEntry \/ IsTarget(v.gitRefs[g])
  /\ \A w \in Workspaces : (v.gitHeads[w] = NoEntry \/ IsTarget(v.gitHeads[w])) /\ v.wc[w] \in Commits \cup {""}

(* The views jj's own setters can produce (View::set_local_bookmark_target  *)
(* etc. remove an entry instead of storing an absent target; an absent      *)
(* remote ref is only kept while it is tracked and the local ref exists).   *)
ValidView(v) ==
  /\ WellFormedView(v)
  /\ \A n \in Names : v.local[n] # AbsentTarget /\ v.tags[n] # AbsentTarget
  /\ \A g \in GitRefNames : v.gitRefs[g] # AbsentTarget
  /\ \A w \in Workspaces : v.gitHeads[w] # AbsentTarget
  /\ \A r \in Remotes, n \in Names :
       /\ v.remotes[r].bookmarks[n].t = AbsentTarget
            => v.remotes[r].bookmarks[n].s = "tracked" /\ v.local[n] # NoEntry
       /\ v.remotes[r].tags[n].t = AbsentTarget
            => v.remotes[r].tags[n].s = "tracked" /\ v.tags[n] # NoEntry

(* --- reference transcription: bookmark_views_to_proto_legacy ----------- *)
(* merge-join of local bookmarks and all remotes' bookmarks by name         *)
ToLegacy(local, remotes) ==
  [n \in Names |->
     LET rb == [r \in Remotes |-> remotes[r].bookmarks[n]]
         inj == local[n] # NoEntry \/ \E r \in Remotes : rb[r] # NoRRef
     IN [injoin |-> inj,
         lt |-> IF local[n] = NoEntry THEN AbsentTarget ELSE local[n],
         rb |-> IF Bug = "legacy_drops_state"
                  THEN [r \in Remotes |-> IF rb[r] = NoRRef THEN NoRRef ELSE [rb[r] EXCEPT !.s = "new"]]
                  ELSE rb]]

(* --- reference transcription: bookmark_views_from_proto_legacy --------- *)
FromLegacy(leg) ==
  LET bm(r) == [n \in Names |-> IF leg[n].injoin THEN leg[n].rb[r] ELSE NoRRef]
  IN [local   |-> [n \in Names |-> IF leg[n].injoin /\ leg[n].lt # AbsentTarget
                                     /\ ~(Bug = "legacy_drops_conflict" /\ Len(leg[n].lt) > 1)
                                   THEN leg[n].lt ELSE NoEntry],
      remotes |-> [r \in Remotes |-> [present   |-> \E n \in Names : bm(r)[n] # NoRRef,
                                      bookmarks |-> bm(r),
                                      tags      |-> [n \in Names |-> NoRRef]]]]

(* what the legacy form can carry of the remote views: bookmarks of remotes *)
(* that have at least one bookmark                                          *)
BookmarksOnly(remotes) ==
  [r \in Remotes |->
     IF \E n \in Names : remotes[r].bookmarks[n] # NoRRef
     THEN [present |-> TRUE, bookmarks |-> remotes[r].bookmarks, tags |-> [n \in Names |-> NoRRef]]
     ELSE EmptyRemote]

(* LAW: the legacy bookmark form is lossless for what it carries            *)
LegacyRoundTripOK(v) ==
  FromLegacy(ToLegacy(v.local, v.remotes)) = [local |-> v.local, remotes |-> BookmarksOnly(v.remotes)]

(* --- reference transcription: view_to_proto / view_from_proto ---------- *)
(* seeded bug "simplifies_targets": the encoder runs every target through    *)
(* Merge::simplify ("cancelling pairs carry no information")                 *)
MA == INSTANCE MergeAlgebra
SimpT(t) == IF t = NoEntry THEN t ELSE MA!Simplify(t)
SimpR(x) == IF x = NoRRef THEN x ELSE [x EXCEPT !.t = MA!Simplify(x.t)]
SimplifyTargets(v) ==
  [v EXCEPT !.local = [n \in Names |-> SimpT(v.local[n])],
            !.tags = [n \in Names |-> SimpT(v.tags[n])],
            !.gitRefs = [g \in GitRefNames |-> SimpT(v.gitRefs[g])],
            !.gitHeads = [w \in Workspaces |-> SimpT(v.gitHeads[w])],
            !.remotes = [r \in Remotes |-> [v.remotes[r] EXCEPT
                            !.bookmarks = [n \in Names |-> SimpR(v.remotes[r].bookmarks[n])],
                            !.tags = [n \in Names |-> SimpR(v.remotes[r].tags[n])]]]]

EncodeView(v0) ==
  LET v == IF Bug = "simplifies_targets" THEN SimplifyTargets(v0) ELSE v0 IN
  [head_ids      |-> v.heads,
   wc_commit_ids |-> v.wc,
   bookmarks     |-> ToLegacy(v.local, v.remotes),
   local_tags    |-> v.tags,
   remote_views  |-> v.remotes,
   git_refs      |-> v.gitRefs,
   git_head      |-> v.gitHeads["default"],          \* deprecated single git head
   git_heads     |-> IF Bug = "drops_ws_git_head"
                       THEN [w \in Workspaces |-> IF w = "default" THEN v.gitHeads[w] ELSE NoEntry]
                       ELSE v.gitHeads]

DecodeView(p) ==
  LET leg == FromLegacy(p.bookmarks) IN
  [heads    |-> p.head_ids,
   local    |-> leg.local,
   tags     |-> p.local_tags,
   \* "use legacy remote_views only when new data isn't available"
   remotes  |-> IF \E r \in Remotes : p.remote_views[r].present THEN p.remote_views ELSE leg.remotes,
   gitRefs  |-> p.git_refs,
   gitHeads |-> IF \A w \in Workspaces : p.git_heads[w] = NoEntry
                THEN [w \in Workspaces |-> IF w = "default" /\ p.git_head # NoEntry /\ p.git_head # AbsentTarget
                                           THEN p.git_head ELSE NoEntry]
                ELSE p.git_heads,
   wc       |-> p.wc_commit_ids]

(* LAW (C16): read(write(v)) = v on valid views                             *)
ViewRoundTripOK(v) == DecodeView(EncodeView(v)) = v

(* --- ContentHash token stream ------------------------------------------ *)
(* lengths and enum ordinals are tokens too; every collection is length-    *)
(* prefixed, every Option tagged (content_hash.rs).                         *)
NumTok(n) == <<"0", "1", "2", "3", "4", "5", "6", "7", "8", "9">>[n + 1]
LenTok(n) == IF Bug = "hash_no_length" THEN <<>> ELSE <<NumTok(n)>>

RECURSIVE ConcatAll(_)
ConcatAll(ss) == IF ss = <<>> THEN <<>> ELSE Head(ss) \o ConcatAll(Tail(ss))

HashTerm(x) == IF x = Absent THEN <<"0">> ELSE <<"1", x>>           \* Option<CommitId>
HashTarget(t) == LenTok(Len(t)) \o ConcatAll([i \in 1..Len(t) |-> HashTerm(t[i])])
HashState(s) == IF s = "new" THEN <<"0">> ELSE <<"1">>               \* enum ordinal
HashRRef(x) == HashTarget(x.t) \o HashState(x.s)

(* a map over the ordered key universe `order`, entries = keys with f[k] # none *)
PresentKeys(f, order, none) == SelectSeq(order, LAMBDA k : f[k] # none)
HashMap(f, order, none, HV(_)) ==
  LET ks == PresentKeys(f, order, none)
  IN LenTok(Len(ks)) \o ConcatAll([i \in 1..Len(ks) |-> <<ks[i]>> \o HV(f[ks[i]])])
HashIdSet(S, order) ==
  LET ks == SelectSeq(order, LAMBDA k : k \in S) IN LenTok(Len(ks)) \o ks
HashId(c) == <<c>>

HashRemoteView(rv) == HashMap(rv.bookmarks, NameOrder, NoRRef, HashRRef)
                      \o HashMap(rv.tags, NameOrder, NoRRef, HashRRef)
HashRemotes(rs) ==
  LET ks == SelectSeq(RemoteOrder, LAMBDA r : rs[r].present)
  IN LenTok(Len(ks)) \o ConcatAll([i \in 1..Len(ks) |-> <<ks[i]>> \o HashRemoteView(rs[ks[i]])])

(* field order = declaration order of `struct View` *)
HashView(v) ==
     HashIdSet(v.heads, CommitOrder)
  \o HashMap(v.local, NameOrder, NoEntry, HashTarget)
  \o HashMap(v.tags, NameOrder, NoEntry, HashTarget)
  \o HashRemotes(v.remotes)
  \o HashMap(v.gitRefs, GitRefOrder, NoEntry, HashTarget)
  \o HashMap(v.gitHeads, WorkspaceOrder, NoEntry, HashTarget)
  \o HashMap(v.wc, WorkspaceOrder, "", HashId)

---------------------------------------------------------------------------
(* OPERATION                                                                *)
(*  [view_id : "v1".., parents : Seq("o1"..) (non-empty),                   *)
(*   meta : [start, end : timestamp, description, hostname, username :      *)
(*           string class, is_snapshot : BOOLEAN, workspace_name : Option,  *)
(*           attributes : [AttrKeys -> Option(string class)]],              *)
(*   preds : Option([Commits -> Option(Seq(Commits))])]                     *)
(* timestamp = [k, s, ms, tz]: ((k * 2^31 + s) * 1000 + ms) ms since the    *)
(* epoch (TLC integers are 32 bit), tz in minutes                           *)
AttrKeys == {"k1", "k2"}
AttrOrder == <<"k1", "k2">>
OpIds == {"o1", "o2"}
ViewIds == {"v1", "v2"}
NoPreds == [c \in Commits |-> <<>>]

EncodeOp(o) ==
  [view_id |-> o.view_id, parents |-> o.parents, metadata |-> o.meta,
   stores_commit_predecessors |-> IF Bug = "op_drops_preds_flag" THEN FALSE ELSE o.preds # <<>>,
   commit_predecessors |-> IF o.preds = <<>> THEN NoPreds ELSE o.preds[1]]
DecodeOp(p) ==
  [view_id |-> p.view_id,
   parents |-> IF p.parents = <<>> THEN <<"root">> ELSE p.parents,   \* pre-root-operation repos
   meta |-> p.metadata,
   preds |-> IF p.stores_commit_predecessors THEN <<p.commit_predecessors>> ELSE <<>>]
OpRoundTripOK(o) == DecodeOp(EncodeOp(o)) = o

HashOpt(x, HV(_)) == IF x = <<>> THEN <<"0">> ELSE <<"1">> \o HV(x[1])
HashStr(s) == <<s>>
HashSeq(q) == LenTok(Len(q)) \o q
HashPredMap(m) == HashMap(m, CommitOrder, <<>>, LAMBDA e : HashSeq(e[1]))
\* timestamps are records of integers, the other tokens strings: kept in separate fields
HashOp(o) ==
  [a |-> <<o.view_id>> \o HashSeq(o.parents),
   t |-> <<o.meta.start, o.meta.end>>,
   b |-> <<o.meta.description, o.meta.hostname, o.meta.username>>
         \o (IF o.meta.is_snapshot THEN <<"1">> ELSE <<"0">>)
         \o HashOpt(o.meta.workspace_name, HashStr)
         \o HashMap(o.meta.attributes, AttrOrder, <<>>, LAMBDA e : HashStr(e[1]))
         \o HashOpt(o.preds, HashPredMap)]

---------------------------------------------------------------------------
(* COMMIT (C17)                                                             *)
(*  [parents, predecessors : Seq(commit tokens), root_tree : Seq(tree       *)
(*   tokens) (odd), labels : Seq(label classes) (<<>> = resolved/no labels),*)
(*   change_id : class, description : class,                                *)
(*   author, committer : [name, email : class, ts : timestamp]]             *)

(* Reference model of the Git backend: what a Git commit object can hold.   *)
FloorSec(ts) == [ts EXCEPT !.ms = 0]
GitStoredSig(sig) == [sig EXCEPT !.ts = FloorSec(sig.ts)]
(* the commit write_commit reports (and Store caches) *)
GitReturned(c) ==
  [c EXCEPT !.committer = GitStoredSig(c.committer),
            !.author = IF Bug = "git_author_not_normalised" THEN c.author ELSE GitStoredSig(c.author)]
(* the commit a fresh store reads *)
GitReadBack(c) == [c EXCEPT !.committer = GitStoredSig(c.committer), !.author = GitStoredSig(c.author)]
SimpleReturned(c) == c
SimpleReadBack(c) == IF Bug = "simple_drops_tz" THEN [c EXCEPT !.author.ts.tz = 0] ELSE c

(* LAW (C17), design level *)
CommitReadEqualsReturnedOK(c) ==
  /\ GitReadBack(c) = GitReturned(c)
  /\ SimpleReadBack(c) = SimpleReturned(c)

---------------------------------------------------------------------------
(* CONTRACTS used by the trace judge on values observed from the real code  *)

(* C16: what was read through a fresh store is the value that was written;  *)
(* the id is the hash of the value's ContentHash bytes; a second write of   *)
(* an equal value (other store, other construction order) gets the same id. *)
ReadEqualsWritten(written, read) == read = written
(* C17: what a fresh store reads is what write_commit returned.             *)
ReadEqualsReturned(returned, read) == read = returned

(* Family laws: over a whole family `F` of records with fields val and id:  *)
(* equal values <=> equal ids  (the id is a function of the value, and it   *)
(* is injective).  Stated with cardinalities so TLC evaluates it in         *)
(* O(n log n).                                                              *)
IdFunctional(F, Val(_), Id(_)) ==
  Cardinality({Val(x) : x \in F}) = Cardinality({<<Val(x), Id(x)>> : x \in F})
IdInjective(F, Val(_), Id(_)) ==
  Cardinality({Id(x) : x \in F}) = Cardinality({<<Val(x), Id(x)>> : x \in F})
=============================================================================
