---------------------------- MODULE Trace_Grammar ----------------------------
(* Judge for C36: the outcome of the real revset / fileset / template       *)
(* parser (each case parsed in a child process, under a per-case timeout)   *)
(* on the TLC-generated cases of MC_Grammar.                                *)
EXTENDS Grammar, Json, IOUtils, TLC

Rec == ndJsonDeserialize(IOEnv.TRACE)

VARIABLE l

Verdict(r) ==
  IF r.batch THEN (IF BatchOK(r.outcomes) THEN "ok" ELSE "NoCrash")
  ELSE IF r.outcome = "harness-error" THEN "harness:" \o r.detail
  ELSE IF ~NoCrash(r.outcome) THEN "NoCrash"
  ELSE IF r.case.t = "alias" /\ r.outcome = "timeout" THEN "AliasTerminates"   \* (after one retry with 6x the limit)
  ELSE IF r.case.t = "alias"
          /\ ~AliasOK(r.case.defs, r.case.expr, r.case.lang, r.outcome, r.kind) THEN "AliasOK"
  ELSE "ok"

ModelKind(c) == RefOutcome(c.defs, c.expr)
Diverges(r) ==
  IF r.batch THEN FALSE
  ELSE IF r.case.t = "derived" THEN r.case.lang \in Range(r.case.langs) /\ r.outcome # "ok"
  ELSE IF r.case.t = "alias" THEN
       \/ ModelKind(r.case) # r.case.model
       \/ (r.outcome = "err" /\ r.kind # "nosuchfunction" /\ r.kind # ModelKind(r.case))
  ELSE FALSE

Init == l = 1
Next ==
  \/ /\ l <= Len(Rec)
     /\ LET v == Verdict(Rec[l]) IN
          /\ (IF v = "ok" THEN TRUE ELSE PrintT(<<"BAD", l, v>>))
          /\ (IF Diverges(Rec[l]) THEN PrintT(<<"DIVERGES", l>>) ELSE TRUE)
     /\ l' = l + 1
  \/ /\ l = Len(Rec) + 1
     /\ PrintT(<<"JUDGED", Len(Rec)>>)
     /\ l' = l + 1
Spec == Init /\ [][Next]_l
=============================================================================
