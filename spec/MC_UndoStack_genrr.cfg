SPECIFICATION Spec
CONSTANTS
  MaxLen = 7
  InitOps = 3
  WithRestore = TRUE
  Bug = "none"
  Emit = TRUE
INVARIANTS EmitInv
CHECK_DEADLOCK FALSE
