SPECIFICATION Spec
CONSTANTS
  Paths = {"a", "b"}
  Contents = {2, 3}
  MaxChange = 2
  Bug = "absorb_strips_source"
  Emit = FALSE
  Directed = FALSE
  Shapes <- ShapesL3
INVARIANTS InvLaws
CHECK_DEADLOCK FALSE
