SPECIFICATION Spec
CONSTANTS
  Vocab <- MC_Vocab12
  Paths <- MC_Paths
  SubDir <- MC_SubDir
  MaxRoot = 2
  MaxSub = 0
  Bug = "reinclude_inside"
INVARIANTS InvInsideIgnoredDir
CHECK_DEADLOCK FALSE
