SPECIFICATION Spec
CONSTANTS
  Normal = {"a", "ab", "uu"}
  Base <- MC_Base2
CHECK_DEADLOCK FALSE
