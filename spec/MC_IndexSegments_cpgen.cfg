SPECIFICATION Spec
CONSTANTS
  MaxCommits = 3
  MaxOps = 4
  MaxParents = 3
  MaxPerTx = 2
  AllowHide = TRUE
  Shape = "any"
  Bug = "none"
INVARIANTS InvWellFormed InvMergeComplete EmitInv
CHECK_DEADLOCK FALSE
