#!/usr/bin/env python3
"""Writes the MC_WorkingCopy_*.cfg family (one place for the bounds of C23/C24/C25/C27).
Run from /verif/spec:  python3 mk_wc_cfgs.py"""
BASE = dict(Bug='"none"', MaxSteps=5, MaxEditRun=3, Acts=None, EditPaths="AllEditPaths",
            Contents="{1, 2}", SymTargets='{"out"}', RootIgnore="{2, 3}", DirIgnore="{5}",
            TreeIds="{1, 3, 4, 8}", SparseIds="{1, 2, 3}", XP='"respect"', Strict='"none"', Emit="FALSE")
EDITS_ALL = ["Write", "Chmod", "Delete", "Mkfifo", "FileToDir", "DirToFile", "DirToSymlink", "RmTree", "Symlink"]


def acts(names):
    return "{" + ", ".join('"%s"' % n for n in names) + "}"


def write(name, invariants, view=True, **kw):
    c = dict(BASE)
    c.update(kw)
    lines = ["SPECIFICATION Spec", "CONSTANTS", "  Paths <- StdPaths", "  PathOrder <- StdPathOrder",
             "  IgnoreVocab <- StdIgnoreVocab"]
    for k, v in c.items():
        if k == "EditPaths":
            lines.append("  EditPaths <- %s" % v)
        else:
            lines.append("  %s = %s" % (k, v))
    lines.append("INVARIANTS " + " ".join(invariants))
    if view:
        lines.append("VIEW View")
    lines.append("CHECK_DEADLOCK FALSE")
    open("MC_WorkingCopy_%s.cfg" % name, "w").write("\n".join(lines) + "\n")


ALLINV = ["Inv_Contracts", "Inv_NoStrayMarker", "Inv_TreeWellFormed", "Inv_Outside"]

# ---- C23: edits + snapshot (two check-out trees give tracked-but-ignored starting points)
C23 = dict(Acts=acts(["Write", "Chmod", "Delete", "FileToDir", "DirToFile", "Symlink", "Snapshot", "CheckOut"]),
           TreeIds="{7, 9}", SparseIds="{}", SymTargets='{"f"}', RootIgnore="{2, 3}", DirIgnore="{5}",
           MaxSteps=4, MaxEditRun=3)
write("c23", ALLINV, **C23)
# tracked paths one and two levels inside a wholly ignored directory, replaced by (empty / non-empty)
# directories, special files, files again; exhaustive
C23I = dict(Acts=acts(["Write", "Delete", "Mkfifo", "FileToDir", "DirToFile", "RmTree", "Snapshot", "CheckOut"]),
            TreeIds="{11, 12}", SparseIds="{}", EditPaths="InsideIgnoredPaths", RootIgnore="{}", DirIgnore="{}",
            Contents="{2}", MaxSteps=5, MaxEditRun=3)
write("c23_ignored", ALLINV, **C23I)
write("c23_ignored_thorough", ALLINV, **dict(C23I, MaxSteps=7, Contents="{1, 2}"))
write("neg_snap_tracked_nonfile", ["Inv_C23"], **dict(C23I, Bug='"snap-tracked-nonfile"'))
write("finding_through_symlink", ["Inv_C23"], **dict(C23I, Strict='"all"', TreeIds="{12}", MaxSteps=3, EditPaths="DirPaths",
                                                   SymTargets='{"out/x"}', Acts=acts(["DirToSymlink", "Snapshot", "CheckOut"])))
write("finding_notdir", ["Inv_C23"], **dict(C23I, Strict='"all"', TreeIds="{12}", MaxSteps=3,
                                          Acts=acts(["DirToFile", "Mkfifo", "Snapshot", "CheckOut"])))
write("c23_thorough", ALLINV, **dict(C23, MaxSteps=5, RootIgnore="{1, 2, 3, 4}", DirIgnore="{5, 6}"))
for bug in ("snap-ignore-tracked", "snap-no-dir-delete", "snap-skip-ignored-dir"):
    write("neg_" + bug.replace("-", "_"), ["Inv_C23"], **dict(C23, Bug='"%s"' % bug, MaxSteps=5))

write("finding_dir_conflict", ["Inv_C23"], **dict(C23, Strict='"all"', MaxSteps=3, TreeIds="{9}",
                                                Acts=acts(["DirToFile", "Snapshot", "CheckOut"])))
write("finding_tracked_dir", ["Inv_C23"], **dict(C23, Strict='"all"', MaxSteps=4, TreeIds="{4, 5}",
                                               Acts=acts(["FileToDir", "Snapshot", "CheckOut"])))

write("finding_stale_ignored", ["Inv_C23"], **dict(C23, Strict='"all"', MaxSteps=6, MaxEditRun=2, TreeIds="{1, 4}",
                                                 RootIgnore="{7}", DirIgnore="{}", Contents="{2}", EditPaths="IgnoreEditPaths",
                                                 Acts=acts(["Write", "FileToDir", "DirToFile", "Snapshot", "CheckOut"])))

# ---- C24: pristine working copies: only jj actions, every tree, both exec policies
C24 = dict(Acts=acts(["CheckOut", "Snapshot", "SetSparse"]), TreeIds="{1, 3, 4, 6, 8, 9, 10, 14, 15, 16, 17, 18}",
           SparseIds="{1, 2, 4}", MaxSteps=4, RootIgnore="{}", DirIgnore="{}")
write("c24", ALLINV, **C24)
write("c24_xignore", ALLINV, **dict(C24, XP='"ignore"', MaxSteps=3))
write("c24_thorough", ALLINV, **dict(C24, MaxSteps=5, SparseIds="{1, 2, 3, 4, 5, 6}"))
write("neg_co_keep_dirs", ["Inv_C24"], **dict(C24, Bug='"co-keep-dirs"'))
write("neg_co_labels_file_only", ["Inv_C24"], **dict(C24, Bug='"co-labels-file-only"', TreeIds="{1, 14, 15, 16, 17}"))

# ---- C25: foreign files, directories and symlinks in the way of check-outs
C25 = dict(Acts=acts(["Write", "Symlink", "FileToDir", "DirToFile", "CheckOut"]), TreeIds="{1, 3, 4, 5, 6}",
           SparseIds="{}", RootIgnore="{}", DirIgnore="{}", MaxSteps=4, MaxEditRun=2, Contents="{2}")
write("c25", ALLINV, **C25)
# directories at any depth replaced by symlinks to the outside sentinel (same sub-paths), then
# in-place modification / removal / addition check-outs of paths below them; exhaustive
C25S = dict(Acts=acts(["DirToSymlink", "Symlink", "FileToDir", "CheckOut"]), TreeIds="{1, 3, 12, 13}", SparseIds="{}",
            EditPaths="DirPaths", SymTargets='{"out", "out/x"}', RootIgnore="{}", DirIgnore="{}", MaxSteps=5, MaxEditRun=2)
write("c25_symlink", ALLINV, **C25S)
write("c25_symlink_thorough", ALLINV, **dict(C25S, MaxSteps=6, TreeIds="{1, 3, 5, 12, 13}"))
write("neg_co_follow_ancestor_symlink", ["Inv_C25"], **dict(C25S, Bug='"co-follow-ancestor-symlink"'))
write("c25_thorough", ALLINV, **dict(C25, MaxSteps=5, Contents="{1, 2}", RootIgnore="{2, 3}",
                                     Acts=acts(["Write", "Symlink", "FileToDir", "DirToFile", "Delete", "CheckOut", "Snapshot"])))
write("neg_co_overwrite", ["Inv_C25"], **dict(C25, Bug='"co-overwrite"'))
write("neg_co_follow_symlink", ["Inv_C25"], **dict(C25, Bug='"co-follow-symlink"'))
write("finding_unsorted", ["Inv_C25"], **dict(C25, Strict='"all"', MaxSteps=5))

# ---- C27: sparse patterns interleaved with check-outs, edits and snapshots
C27 = dict(Acts=acts(["Write", "Delete", "DirToFile", "CheckOut", "SetSparse", "Snapshot"]), TreeIds="{3, 5}",
           SparseIds="{1, 2, 3, 4, 5, 6}", EditPaths="SparseEditPaths", RootIgnore="{}", DirIgnore="{}",
           MaxSteps=4, MaxEditRun=2, Contents="{2}")
write("c27", ALLINV, **C27)
write("c27_thorough", ALLINV, **dict(C27, MaxSteps=6, TreeIds="{3, 5, 8}", Contents="{1, 2}"))
write("neg_sparse_drop_tree", ["Inv_C27"], **dict(C27, Bug='"sparse-drop-tree"'))
write("neg_sparse_delete", ["Inv_C27"], **dict(C27, Bug='"sparse-delete"', MaxSteps=5))
write("finding_sparse_clash", ["Inv_C27"], **dict(C27, Strict='"F9"', MaxSteps=5, TreeIds="{4}", SparseIds="{1, 4}",
                                                Acts=acts(["Write", "FileToDir", "CheckOut", "SetSparse", "Snapshot"])))
write("finding_sparse_panic", ["Inv_C27"], **dict(C27, Strict='"all"', MaxSteps=5))
write("finding_stale_state", ["Inv_C23"], **dict(C27, Strict='"all"', MaxSteps=5, TreeIds="{1, 3, 5}",
                                                Acts=acts(["Write", "CheckOut", "SetSparse", "Snapshot"]), EditPaths="SparseEditPaths"))

# ---- generators (simulation; behaviours of 10 steps with a wide alphabet)
GEN = dict(MaxSteps=10, MaxEditRun=3, SymTargets='{"out", "f", "out/x"}', RootIgnore="{1, 2, 3, 4, 7}", DirIgnore="{3, 5, 6}",
           TreeIds="{1, 2, 3, 4, 5, 6, 7, 8, 9, 10, 11, 12, 13, 14, 15, 16, 17, 18}", SparseIds="{1, 2, 3, 4, 5, 6}", Emit="TRUE")
GI = ["EmitInv"]
write("gen_c23_ignored", GI, view=False, **dict(GEN, Acts=acts(["Write", "Chmod", "Delete", "Mkfifo", "FileToDir", "DirToFile", "RmTree", "Snapshot", "CheckOut"]),
                                               TreeIds="{9, 11, 12}", EditPaths="InsideIgnoredPaths", MaxSteps=8, MaxEditRun=3))
write("gen_c23", GI, view=False, **dict(GEN, Acts=acts(EDITS_ALL + ["Snapshot", "CheckOut"]), TreeIds="{3, 7, 8, 9, 10, 11, 12, 13}", MaxEditRun=4))
write("gen_c24", GI, view=False, **dict(GEN, Acts=acts(["CheckOut", "Snapshot", "SetSparse"]), MaxSteps=8))
write("gen_c24_xignore", GI, view=False, **dict(GEN, Acts=acts(["CheckOut", "Snapshot", "SetSparse", "Chmod"]), MaxSteps=8, XP='"ignore"'))
write("gen_c25", GI, view=False, **dict(GEN, Acts=acts(EDITS_ALL + ["CheckOut", "Snapshot"]), MaxEditRun=2))
write("gen_c25_symlink", GI, view=False, **dict(GEN, Acts=acts(["DirToSymlink", "Symlink", "FileToDir", "Write", "CheckOut", "Snapshot"]),
                                               TreeIds="{1, 3, 5, 12, 13}", EditPaths="DirPaths", SymTargets='{"out", "out/x"}',
                                               MaxSteps=8, MaxEditRun=2))
write("gen_c27", GI, view=False, **dict(GEN, Acts=acts(["Write", "Delete", "DirToFile", "FileToDir", "CheckOut", "SetSparse", "Snapshot"]), MaxEditRun=2))
write("gen_all", GI, view=False, **dict(GEN, Acts=acts(EDITS_ALL + ["CheckOut", "SetSparse", "Snapshot"])))
