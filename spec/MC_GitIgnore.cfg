SPECIFICATION Spec
CONSTANTS
  Vocab <- MC_Vocab12
  Paths <- MC_Paths
  SubDir <- MC_SubDir
  MaxRoot = 2
  MaxSub = 1
  Bug = "none"
INVARIANTS InvWalk InvInsideIgnoredDir InvLastLineWins InvInnerFileWins
CHECK_DEADLOCK FALSE
