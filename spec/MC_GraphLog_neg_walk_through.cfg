SPECIFICATION Spec
CONSTANTS
  MaxCommits = 4
  MaxParents = 3
  Bug = "walk_through"
INVARIANTS InvReferenceMeetsContract InvReduction InvReferenceIsReference
CHECK_DEADLOCK FALSE
