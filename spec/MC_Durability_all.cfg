SPECIFICATION MCSpec
CONSTANTS
  Guards = {"G2", "G3", "G4", "G5"}
  MaxSteps = 12
INVARIANTS Loadable NoCommittedOpLost BeforeOrAfter WcRecoverable
CHECK_DEADLOCK FALSE
