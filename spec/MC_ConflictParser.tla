-------------------------- MODULE MC_ConflictParser --------------------------
(* The conflict-marker parser of spec/ConflictMarkers.tla run as an explicit *)
(* state machine: one TLA+ step per line of the file (OuterStep, the same    *)
(* operator SpecParse folds), so that TLC checks invariants in every         *)
(* intermediate state of the parse, not only its result.                     *)
(*   Init     picks a hunk list (resolved text / conflict / resolved text /  *)
(*            conflict, terms from a small vocabulary with look-alikes), a   *)
(*            style and a snapshot position, and materialises it             *)
(*   ReadLine consumes line pos                                              *)
(*   Finish   closes the parse (trailing resolved text)                      *)
(* Invariants: the hunks recognised so far are a prefix of the hunks that    *)
(* were written (InvPrefix); an open conflict always starts at a start       *)
(* marker and lies after the last closed hunk (InvOpen); pending resolved    *)
(* text never reaches back into a closed hunk (InvMonotone); at the end the  *)
(* result is exactly what was written (InvResult).                           *)
EXTENDS ConflictMarkers, TLC

CONSTANTS Bug, NTexts

AllTexts == << <<>>, <<97, LF>>, Rep(ChAdd, 7) \o <<LF>>, Rep(ChEnd, 7) \o <<LF>>,
              Rep(ChRemove, 6) \o <<SP, 120, LF>>, Rep(ChStart, 7) \o <<SP, 120, LF>> >>
Texts == {AllTexts[i] : i \in 1..NTexts}
Pre  == <<97, 97, LF>>
Post == <<98, LF>>
Styles == {"diff", "diffexp", "snapshot", "git"}

VARIABLES hs, L, lines, pos, pst, result

vars == <<hs, L, lines, pos, pst, result>>

HunkListsOf(h1, h2) == { << <<Pre>>, h1, <<Post>>, h2 >>, <<h1, h2, <<Post>> >> }
MarkerLenFor(hl) ==
  LET m == RefMarkerLen([k \in 1..3 |-> TermText(hl, k)]) IN IF Bug = "shortmarker" THEN MinMarkerLen ELSE m

Init ==
  \E a, b, c, d \in Texts, style \in Styles, p \in 0..1 :
    \E hl \in HunkListsOf(<<a, b, c>>, <<c, d, a>>) :
      /\ hs = hl
      /\ L = MarkerLenFor(hl)
      /\ lines = Lines(SpecMaterialize(hl, style, p, MarkerLenFor(hl), <<SP, 120>>, <<LF>>))
      /\ pos = 1
      /\ pst = OuterInit
      /\ result = [some |-> FALSE, hunks |-> <<>>]

ReadLine ==
  /\ pos <= Len(lines)
  /\ pst' = OuterStep(pst, lines, pos, 2, L)
  /\ pos' = pos + 1
  /\ UNCHANGED <<hs, L, lines, result>>
Finish ==
  /\ pos = Len(lines) + 1
  /\ result' = OuterFinish(pst, lines)
  /\ pos' = pos + 1
  /\ UNCHANGED <<hs, L, lines, pst>>
Next == ReadLine \/ Finish
Spec == Init /\ [][Next]_vars

IsPrefix(s, t) == Len(s) <= Len(t) /\ s = SubSeq(t, 1, Len(s))
InvPrefix == IsPrefix(pst.hunks, hs)
InvOpen ==
  pst.cstart # 0 => /\ MarkerKind(lines[pst.cstart], L) = ChStart
                    /\ pst.cstart >= pst.rstart
                    /\ pst.cstart < pos
InvMonotone == pst.rstart <= pos
InvResult == pos = Len(lines) + 2 => result = [some |-> TRUE, hunks |-> hs]
=============================================================================
