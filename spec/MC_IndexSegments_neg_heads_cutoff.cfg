SPECIFICATION Spec
CONSTANTS
  MaxCommits = 4
  MaxOps = 4
  MaxParents = 3
  MaxPerTx = 2
  AllowHide = TRUE
  Shape = "any"
  Bug = "heads_cutoff"
INVARIANTS InvWellFormed InvQueries InvGeometric InvSquashKeeps InvMergeComplete InvLevelsRule InvMemo
CHECK_DEADLOCK FALSE
