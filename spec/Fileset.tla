------------------------------- MODULE Fileset -------------------------------
(* The fileset language (lib/src/fileset.rs: FilePattern::from_str_kind,    *)
(* split_glob_path, FilesetExpression::to_matcher, resolve_expression) on   *)
(* top of Matchers (meaning of matchers) and Paths (cwd-relative path       *)
(* resolution), and the C31 contract.                                       *)
(*                                                                          *)
(* Vocabulary.  An expression is                                            *)
(*   [k |-> "all"] [k |-> "none"]                                           *)
(*   [k |-> "pat", kind |-> K, toks |-> <<token,...>>]   K:"<toks joined /">*)
(*        K = "bare" is a quoted string without kind (cwd prefix glob)      *)
(*   [k |-> "not", a |-> e] [k |-> "and"|"diff"|"or", a |-> e1, b |-> e2]   *)
(* Pattern tokens are the path tokens of Paths (names, ".", "..", "") plus  *)
(* the glob segments of Matchers ("*", "a*", "?", "**").  Evaluation is     *)
(* from a working directory cwd given as a repository directory.            *)
EXTENDS Matchers

GlobSegs == {"*", "a*", "?", "**"}
WsBase == <<"w">>
P == INSTANCE Paths WITH Normal <- Comps \cup GlobSegs, Base <- WsBase

FErr == [ok |-> FALSE]
FOk(m) == [ok |-> TRUE, m |-> m]

HasGlob(t) == t \in GlobSegs
Alpha(t) == t \in {"a", "ab", "A"}          \* contains an ASCII letter

(* split_glob_path / split_glob_path_i: the leading run of components that  *)
(* stay literal                                                             *)
RECURSIVE LeadLen(_, _, _)
LeadLen(toks, i, ic) ==
  IF i > Len(toks) \/ HasGlob(toks[i]) \/ (ic /\ Alpha(toks[i])) THEN i - 1
  ELSE LeadLen(toks, i + 1, ic)
(* text of the literal directory part: it keeps its trailing separator *)
DirToks(toks, n) == IF n = Len(toks) THEN toks
                    ELSE IF n = 0 THEN <<>> ELSE SubSeq(toks, 1, n) \o <<"">>
PatToks(toks, n) == SubSeq(toks, n + 1, Len(toks))

(* RepoPathBuf::from_relative_path on a token text *)
OnlyCurDir(toks) == toks # <<>> /\ toks[1] = "." /\ \A i \in 2..Len(toks) : toks[i] \in {"", "."}
RelParse(toks) ==
  IF OnlyCurDir(toks) THEN P!Ok(<<>>)
  ELSE IF Len(toks) >= 2 /\ toks[1] = "" THEN P!Err           \* text starts with "/"
  ELSE IF toks # <<>> /\ toks[1] = "." THEN P!Err              \* leading CurDir component
  ELSE LET cs == SelectSeq(toks, LAMBDA t : t # "" /\ t # ".") IN
         IF \E i \in 1..Len(cs) : cs[i] = ".." THEN P!Err ELSE P!Ok(cs)

CwdParse(cwd, toks) == P!RefParse(WsBase \o cwd, FALSE, toks)

IsRootKind(K) == K \in {"root", "root-file", "root-glob", "root-glob-i", "root-prefix-glob", "root-prefix-glob-i"}
IsGlobKind(K) == K \in {"glob", "glob-i", "prefix-glob", "prefix-glob-i", "bare",
                        "root-glob", "root-glob-i", "root-prefix-glob", "root-prefix-glob-i"}
IsPrefixKind(K) == K \in {"cwd", "root", "prefix-glob", "prefix-glob-i", "bare", "root-prefix-glob", "root-prefix-glob-i"}
IsICase(K) == K \in {"glob-i", "prefix-glob-i", "root-glob-i", "root-prefix-glob-i"}

PathMatcher(K, p) == IF IsPrefixKind(K) THEN [k |-> "prefix", ps |-> <<p>>] ELSE [k |-> "files", ps |-> <<p>>]

(* FilePattern::from_str_kind followed by the pattern's matcher *)
PatternMatcher(K, toks, cwd) ==
  LET n == IF IsGlobKind(K) THEN LeadLen(toks, 1, IsICase(K)) ELSE Len(toks)
      dirt == DirToks(toks, n)
      dir == IF IsRootKind(K) THEN RelParse(dirt) ELSE CwdParse(cwd, dirt)
      pat == PatToks(toks, n)
      npat == SelectSeq(pat, LAMBDA t : t # "" /\ t # ".")
  IN IF ~dir.ok THEN FErr
     ELSE IF pat = <<>> THEN FOk(PathMatcher(K, dir.out))
     ELSE IF \E i \in 1..Len(pat) : pat[i] = ".." THEN FErr
     ELSE FOk([k |-> "glob", pm |-> IsPrefixKind(K),
               gs |-> <<[dir |-> dir.out, pat |-> npat, ic |-> IsICase(K)]>>])

RECURSIVE ToMatcher(_, _)
ToMatcher(e, cwd) ==
  CASE e.k = "all"  -> FOk([k |-> "all"])
    [] e.k = "none" -> FOk([k |-> "none"])
    [] e.k = "pat"  -> PatternMatcher(e.kind, e.toks, cwd)
    [] e.k = "not"  -> LET a == ToMatcher(e.a, cwd) IN
                         IF a.ok THEN FOk([k |-> "diff", a |-> [k |-> "all"], b |-> a.m]) ELSE FErr
    [] OTHER -> LET a == ToMatcher(e.a, cwd)  b == ToMatcher(e.b, cwd)
                    op == CASE e.k = "and" -> "inter" [] e.k = "diff" -> "diff" [] e.k = "or" -> "union"
                IN IF a.ok /\ b.ok THEN FOk([k |-> op, a |-> a.m, b |-> b.m]) ELSE FErr

---------------------------------------------------------------------------
(* CONTRACT (C31): the real parse + to_matcher rejects exactly the          *)
(* expressions with an unresolvable pattern and otherwise matches exactly   *)
(* the paths the expression denotes.  out = [ok, matched]                   *)
FilesetOK(e, cwd, out) ==
  LET d == ToMatcher(e, cwd) IN
    /\ out.ok = d.ok
    /\ d.ok => Range(out.matched) = MatchSet(d.m)
FilesetVerdict(e, cwd, out) ==
  LET d == ToMatcher(e, cwd) IN
    IF out.ok # d.ok THEN (IF d.ok THEN "Rejected" ELSE "Accepted")
    ELSE IF d.ok /\ Range(out.matched) # MatchSet(d.m) THEN "Selection"
    ELSE "ok"
===========================================================================
