SPECIFICATION Spec
CONSTANTS
  K = 2
  Kinds = {"commit", "blob", "tree"}
  Emit = TRUE
  RepLevel = 2
  Bug = "none"
INVARIANTS InvCommit EmitInv
CHECK_DEADLOCK FALSE
