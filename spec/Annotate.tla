----------------------------- MODULE Annotate -----------------------------
(* File annotation / blame (lib/src/annotate.rs).  Property C38.            *)
(*                                                                          *)
(* Histories of ONE file made of unique line tokens: H = [par, file] where  *)
(* par is a commit graph (Dag.tla, topologically numbered; a node without   *)
(* parents sits on jj's root commit, which has no file) and file[c] is the  *)
(* set of tokens the file holds at c (lines are written in token order, so  *)
(* the relative order of lines never changes: no moves).  A history is      *)
(* valid when every token is introduced at most once (no re-adds, no two    *)
(* commits inventing the same line): then Blame(t) is THE introducing       *)
(* commit.                                                                  *)
(*                                                                          *)
(* The machine below is the ideal annotation walk (children before parents, *)
(* a line follows the first parent that has it, leftovers belong to the     *)
(* commit); TLC shows it meets the contract and equals Blame.  CONTRACT:    *)
(* AnnotateVerdict judges what the real FileAnnotator answered.             *)
EXTENDS Dag, Integers

VARIABLES h,        \* the problem [par, file, s, dom]: annotate from s within the domain dom
          cur,      \* the commit being processed next (descending), 0 when finished
          pend,     \* pend[c]: the tokens of file[s] that were traced down to c and are not attributed yet
          attr      \* attr[t] = [c, ok] once attributed; ok = FALSE: the search left the domain at c
avars == <<h, cur, pend, attr>>

Tokens(H) == UNION {H.file[c] : c \in DOMAIN H.file}
Introducers(H, t) ==
  {c \in DOMAIN H.par : t \in H.file[c] /\ \A q \in ParentSet(H.par, c) : t \notin H.file[q]}
ValidHistory(H) ==
  /\ TopoNumbered(H.par) /\ DOMAIN H.file = DOMAIN H.par
  /\ \A t \in Tokens(H) : Cardinality(Introducers(H, t)) = 1
Blame(H, t) == CHOOSE c \in Introducers(H, t) : TRUE

NoAttr == [c |-> 0, ok |-> FALSE]

AStart(q) ==
  /\ h' = q
  /\ cur' = q.s
  /\ pend' = [c \in DOMAIN q.par |-> IF c = q.s THEN q.file[q.s] ELSE {}]
  /\ attr' = [t \in q.file[q.s] |-> NoAttr]

(* distribute the pending tokens of commit c over its parents, in order *)
RECURSIVE Distribute(_, _, _, _)
Distribute(H, ps, i, rest) ==       \* -> sequence of the token sets handed to parents i..Len(ps)
  IF i > Len(ps) THEN <<>>
  ELSE LET mine == rest \cap H.file[ps[i]]
       IN <<mine>> \o Distribute(H, ps, i + 1, rest \ mine)

ProcessCommit ==
  /\ cur >= 1
  /\ LET c  == cur
         ps == h.par[c]
         P  == pend[c]
         shares == Distribute(h, ps, 1, P)
         given == UNION {shares[i] : i \in 1..Len(ps)}
         left  == P \ given
     IN /\ pend' = [d \in DOMAIN pend |->
                      IF d = c THEN {}
                      ELSE pend[d] \cup UNION {IF ps[i] = d /\ d \in h.dom THEN shares[i] ELSE {} : i \in 1..Len(ps)}]
        /\ attr' = [t \in DOMAIN attr |->
                      IF t \in left THEN [c |-> c, ok |-> TRUE]
                      ELSE IF \E i \in 1..Len(ps) : t \in shares[i] /\ ps[i] \notin h.dom
                           THEN [c |-> ps[CHOOSE i \in 1..Len(ps) : t \in shares[i]], ok |-> FALSE]
                      ELSE attr[t]]
  /\ cur' = cur - 1
  /\ UNCHANGED h

WalkDone == cur = 0

(* --- CONTRACT ---------------------------------------------------------------- *)
(* out: the annotation as a sequence of [t, c, ok] (line token, commit, Ok/Err)  *)
RECURSIVE AscSeq(_)
AscSeq(S) == IF S = {} THEN <<>>
             ELSE LET m == CHOOSE x \in S : \A y \in S : x <= y IN <<m>> \o AscSeq(S \ {m})

(* the general clause of the property for one Ok line *)
OriginOK(H, s, dom, t, c) ==
  /\ c \in dom /\ IsAncestor(H.par, c, s)
  /\ t \in H.file[c]
  /\ \A q \in ParentSet(H.par, c) \cap dom : t \notin H.file[q]
(* an Err line (no originator within the domain): rightly so, and the commit *)
(* where the search stopped is an ancestor that has the line.  (jj's doc     *)
(* says that commit lies outside the domain; in fact it is the nearest       *)
(* parent the walk did not enter, which may be an in-domain commit that did  *)
(* not touch the file - the property does not speak about it.)               *)
BoundaryOK(H, s, dom, t, c) ==
  /\ c \in DOMAIN H.par /\ IsAncestor(H.par, c, s)
  /\ t \in H.file[c]
  /\ Blame(H, t) \notin dom

(* Shape of the known finding (DESIGN 7): the line is blamed on a merge that  *)
(* kept it although a parent a still has it; another parent b DELETED it     *)
(* (the introducing commit is an ancestor of b) and a's side left the file   *)
(* UNTOUCHED (no commit reachable only through a changed the file), so the   *)
(* walk over file-changing commits never compares the merge with a's side.   *)
Untouched(H, c) == IF Len(H.par[c]) = 0 THEN H.file[c] = {} ELSE \A q \in ParentSet(H.par, c) : H.file[q] = H.file[c]
MergeKeepsLine(H, t, c) ==
  /\ c \in DOMAIN H.par /\ Len(H.par[c]) >= 2 /\ t \in H.file[c]
  /\ \E a, b \in ParentSet(H.par, c) :
        /\ t \in H.file[a] /\ t \notin H.file[b]
        /\ Blame(H, t) \in Ancestors(H.par, b)
        /\ \A d \in Ancestors(H.par, a) \ Ancestors(H.par, b) : Untouched(H, d)

(* Shape of a second finding (found by this check): an out-of-domain commit  *)
(* is a parent of two in-domain ancestors of the start commit.  The walk     *)
(* counts it as an unresolved root once per edge, believes nothing is left   *)
(* to trace and stops early: lines still in flight keep their initial state  *)
(* (unresolved, at the start commit).                                        *)
UnresolvedRootCountedTwice(H, s, dom) ==
  \E o \in (DOMAIN H.par) \ dom :
     Cardinality({c \in dom \cap Ancestors(H.par, s) : o \in ParentSet(H.par, c)}) >= 2

LineVerdict(H, s, dom, e) ==
  IF e.c \notin DOMAIN H.par THEN "OriginIsACommitOfTheHistory"
  ELSE IF e.ok /\ ~OriginOK(H, s, dom, e.t, e.c) THEN "OriginIntroducedTheLine"
  ELSE IF e.ok /\ e.c # Blame(H, e.t) THEN "OriginIsBlame"
  ELSE IF ~e.ok /\ ~BoundaryOK(H, s, dom, e.t, e.c) THEN "StopsAtDomainBoundary"
  ELSE "ok"

AnnotateVerdict(H, s, dom, out) ==
  IF [i \in 1..Len(out) |-> out[i].t] # AscSeq(H.file[s]) THEN "TextIsTheFile"
  ELSE IF \E i \in 1..Len(out) : LineVerdict(H, s, dom, out[i]) # "ok"
       THEN LineVerdict(H, s, dom, out[CHOOSE i \in 1..Len(out) : LineVerdict(H, s, dom, out[i]) # "ok"])
  ELSE "ok"
(* every failing line has the known-finding shape *)
OnlyMergeKeepsLine(H, s, dom, out) ==
  \A i \in 1..Len(out) :
     LineVerdict(H, s, dom, out[i]) # "ok" => (out[i].ok /\ MergeKeepsLine(H, out[i].t, out[i].c))
OnlyStoppedEarly(H, s, dom, out) ==
  /\ UnresolvedRootCountedTwice(H, s, dom)
  /\ \A i \in 1..Len(out) :
        LineVerdict(H, s, dom, out[i]) # "ok" => (~out[i].ok /\ out[i].c = s)
=============================================================================
