SPECIFICATION Spec
CONSTANTS
  LF = {0, 10, 20}
  LD = {0}
  LX = {0}
  LY = {0}
  MaxTerms = 3
  Nested = TRUE
  Accepts = {TRUE, FALSE}
  ExcludeFinding = TRUE
  Bug = "none"
  Emit = FALSE
  EmitMin = 1
INVARIANTS InvRebaseLaws InvContract
CHECK_DEADLOCK FALSE
