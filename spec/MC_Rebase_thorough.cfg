SPECIFICATION Spec
CONSTANTS
  LF = {0, 10}
  LD = {0}
  LX = {0, 10}
  LY = {0}
  MaxCommits = 4
  MaxParents = 2
  Accepts = {TRUE, FALSE}
  Emit = TRUE
  Bug = "none"
  ExcludeShortcut = TRUE
INVARIANTS InvLaws InvIdentity InvRoundTrip EmitInv
CHECK_DEADLOCK FALSE
