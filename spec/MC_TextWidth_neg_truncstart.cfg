SPECIFICATION Spec
CONSTANTS
  MaxLen = 3
  MaxWrapLen = 3
  MaxDifferLen = 2
  MaxW = 4
  Kinds = {"shorten"}
  Emit = FALSE
  Bug = "truncstart_strips"
INVARIANTS InvTruncate
CHECK_DEADLOCK FALSE
