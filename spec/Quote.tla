-------------------------------- MODULE Quote --------------------------------
(* Quoting and escaping of strings and symbols for the revset, fileset and  *)
(* template languages (lib/src/dsl_util.rs: escape_string,                  *)
(* StringLiteralParser::parse; lib/src/revset.rs: format_string,            *)
(* format_symbol, format_remote_symbol; the identifier rule of revset.pest) *)
(* and the C35 round-trip contract.                                         *)
(*                                                                          *)
(* Vocabulary.  A string is a sequence of CHARACTER TOKENS, one token per   *)
(* class of characters that the escaping or the grammars distinguish:       *)
(*   "a" "n"     ASCII identifier letters (n also names an escape)          *)
(*   "uid"       a non-ASCII XID_Continue letter (ü)                        *)
(*   "usym"      a non-ASCII non-identifier character (→)                   *)
(*   "star" "slash"   * and /: identifier characters of the revset grammar  *)
(*   "dot" "plus" "dash"   . + -: allowed singly (dash: runs) inside        *)
(*   "dq" "bs" "sq"   double quote, backslash, single quote                 *)
(*   "nl" "tab" "cr" "nul"   characters with a named escape                 *)
(*   "esc" "ctl" "del"   ESC (\x1b), another C0 control (\x01), DEL (\x7f)  *)
(*   "at" "sp" "pipe"   @, space, an operator character (|)                 *)
(* The text of an escaped string additionally uses the letter/digit tokens  *)
(* "t" "r" "e" "x" "0" "1" "7" "b" "f".                                     *)
EXTENDS Naturals, Sequences, FiniteSets

Chars == {"a", "n", "uid", "usym", "star", "slash", "dot", "plus", "dash", "dq", "bs", "sq",
          "nl", "tab", "cr", "nul", "esc", "ctl", "del", "at", "sp", "pipe"}

---------------------------------------------------------------------------
(* REFERENCE TRANSCRIPTION of dsl_util::escape_string *)
EscapeChar(c) ==
  CASE c = "dq"  -> <<"bs", "dq">>
    [] c = "bs"  -> <<"bs", "bs">>
    [] c = "tab" -> <<"bs", "t">>
    [] c = "cr"  -> <<"bs", "r">>
    [] c = "nl"  -> <<"bs", "n">>
    [] c = "nul" -> <<"bs", "0">>
    [] c = "esc" -> <<"bs", "x", "1", "b">>      \* ascii::escape_default
    [] c = "ctl" -> <<"bs", "x", "0", "1">>
    [] c = "del" -> <<"bs", "x", "7", "f">>
    [] OTHER     -> <<c>>
RECURSIVE Escape(_)
Escape(s) == IF s = <<>> THEN <<>> ELSE EscapeChar(s[1]) \o Escape(SubSeq(s, 2, Len(s)))

(* REFERENCE TRANSCRIPTION of the string_literal grammar rule +            *)
(* StringLiteralParser::parse on the text between the quotes.  Invalid     *)
(* (the grammar rejects the literal) is the one-element sequence           *)
(* <<"INVALID">>.                                                          *)
Invalid == <<"INVALID">>
HexChar(h1, h2) ==
  CASE h1 = "1" /\ h2 = "b" -> "esc"
    [] h1 = "0" /\ h2 = "1" -> "ctl"
    [] h1 = "7" /\ h2 = "f" -> "del"
    [] OTHER -> "INVALID"
RECURSIVE UnescapeFrom(_, _)
UnescapeFrom(t, i) ==
  IF i > Len(t) THEN <<>>
  ELSE IF t[i] = "dq" THEN Invalid                 \* an unescaped quote ends the literal
  ELSE IF t[i] # "bs" THEN
         LET rest == UnescapeFrom(t, i + 1) IN IF rest = Invalid THEN Invalid ELSE <<t[i]>> \o rest
  ELSE IF i = Len(t) THEN Invalid
  ELSE LET e == t[i + 1]
           one == CASE e = "dq" -> "dq" [] e = "bs" -> "bs" [] e = "t" -> "tab" [] e = "r" -> "cr"
                    [] e = "n" -> "nl" [] e = "0" -> "nul" [] e = "e" -> "esc" [] OTHER -> "INVALID"
       IN IF e = "x" THEN
               IF i + 3 > Len(t) \/ HexChar(t[i + 2], t[i + 3]) = "INVALID" THEN Invalid
               ELSE LET rest == UnescapeFrom(t, i + 4) IN
                      IF rest = Invalid THEN Invalid ELSE <<HexChar(t[i + 2], t[i + 3])>> \o rest
          ELSE IF one = "INVALID" THEN Invalid
          ELSE LET rest == UnescapeFrom(t, i + 2) IN IF rest = Invalid THEN Invalid ELSE <<one>> \o rest
Unescape(t) == UnescapeFrom(t, 1)

(* REFERENCE TRANSCRIPTION of the revset `identifier` rule as an automaton: *)
(*   identifier = part (("." | "-"+ | "+") part)*,  part = IdChar+          *)
IdChar == {"a", "n", "uid", "star", "slash"}
RECURSIVE IdentFrom(_, _, _)
IdentFrom(s, i, q) ==      \* q: "start" | "part" | "need" (after . or +) | "dashes"
  IF i > Len(s) THEN q = "part"
  ELSE LET c == s[i] IN
    IF c \in IdChar THEN IdentFrom(s, i + 1, "part")
    ELSE IF q = "part" /\ c \in {"dot", "plus"} THEN IdentFrom(s, i + 1, "need")
    ELSE IF q \in {"part", "dashes"} /\ c = "dash" THEN IdentFrom(s, i + 1, "dashes")
    ELSE FALSE
IsIdentifier(s) == IdentFrom(s, 1, "start")
NeedsQuote(s) == ~IsIdentifier(s)

(* format_string / format_symbol as token texts *)
FormatString(s) == <<"dq">> \o Escape(s) \o <<"dq">>
FormatSymbol(s) == IF NeedsQuote(s) THEN FormatString(s) ELSE s

---------------------------------------------------------------------------
(* CONTRACTS (C35), on observed answers.  An observed parse is             *)
(* [ok |-> BOOLEAN, val |-> string].                                       *)
ParsedAs(s, p) == p.ok /\ p.val = s

(* a string escaped by jj parses back to itself in each language *)
StringRoundTripOK(s, p) == ParsedAs(s, p)
(* the fileset literal is observed through root-file:"..." whose path      *)
(* normalisation is the identity only for slash-free, non-dot names        *)
FilesetObservable(s) ==
  /\ s # <<>> /\ s # <<"dot">> /\ s # <<"dot", "dot">>
  /\ \A i \in 1..Len(s) : s[i] # "slash"
(* a name formatted as a symbol parses back to the same symbol *)
SymbolRoundTripOK(s, p) == s # <<>> => ParsedAs(s, p)
(* name@remote parses back to the same pair *)
RemoteSymbolRoundTripOK(n, r, p) ==
  (n # <<>> /\ r # <<>>) => (p.ok /\ p.name = n /\ p.remote = r)
===========================================================================
