SPECIFICATION Spec
CONSTANTS
  Bug = "none"
  NTexts = 6
INVARIANTS InvPrefix InvOpen InvMonotone InvResult
CHECK_DEADLOCK FALSE
