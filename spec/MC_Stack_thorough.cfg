SPECIFICATION Spec
CONSTANTS
  Paths = {"a", "b"}
  Contents = {2, 3}
  MaxChange = 2
  Bug = "none"
  Emit = FALSE
  Directed = FALSE
  Shapes <- ShapesAll
INVARIANTS InvLaws
CHECK_DEADLOCK FALSE
