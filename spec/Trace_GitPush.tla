--------------------------- MODULE Trace_GitPush ---------------------------
(* I->S judge for C45.  Reads the ndjson trace named by env TRACE (written *)
(* by `gitsync push`).  "reset" starts a case; every other record is one    *)
(* action performed on the real repositories (jj repo, bare remote, second *)
(* clone) with the projected state after it.  Each step is judged against  *)
(* the CONTRACTS of GitPush from the previously OBSERVED state; differences *)
(* from the reference transcription that break no contract are DIVERGES.    *)
EXTENDS GitPush, Json, IOUtils

Rec == ndJsonDeserialize(IOEnv.TRACE)

VARIABLES l, cur, par
vars == <<l, cur, par>>

ToSet(t) == {t[i] : i \in DOMAIN t}
Obs(p) == [local |-> p.local, track |-> p.track, remote |-> p.remote, known |-> ToSet(p.known)]

UserOps == {"JjSet", "JjDelete", "OtherSet", "OtherDelete"}

(* jj's three records of a remote branch agree: the remote-tracking        *)
(* bookmark, the refs/remotes/origin ref in its Git repo and the view's     *)
(* last-seen value of that ref                                              *)
RecordsAgree(p) == \A b \in DOMAIN p.track : p.gtrack[b] = p.track[b] /\ p.seenr[b] = p.track[b]

Verdict(r) ==
  IF r.op = "reset" THEN
       IF \A b \in DOMAIN r.post.remote :
             /\ r.post.local[b] = <<0>> /\ r.post.track[b] = 0 /\ r.post.remote[b] = 0
             /\ r.post.gtrack[b] = 0 /\ r.post.seenr[b] = 0
       THEN "ok" ELSE "harness:bad-initial-state"
  ELSE IF r.op = "panic" THEN "Panic"
  ELSE IF r.op = "error" THEN "Error"
  ELSE IF r.op = "harness_error" THEN "harness:git-plumbing-failed"
  ELSE IF r.post.extra # <<>> THEN "NoExtraRefs"
  ELSE IF ~RecordsAgree(r.post) THEN "RecordsAgree"
  ELSE IF r.op \in UserOps THEN
       IF PFrameOK(cur, Obs(r.post), r.op, r.b, r.c) THEN "ok" ELSE "PFrameOK"
  ELSE IF r.op = "Fetch" THEN
       IF ~FetchOK(par, cur, Obs(r.post)) THEN "FetchOK"
       ELSE IF r.probe THEN "ImportAfterFetchNoop"
       ELSE "ok"
  ELSE IF r.op = "Push" THEN
       IF ~PushOK(cur, Obs(r.post), ToSet(r.set), ToSet(r.pushed),
                  ToSet(r.rejected) \cup ToSet(r.remote_rejected), r.err # "") THEN "PushOK"
       (* the filler bookmarks pushed along were all in sync: each must have gone through and be recorded *)
       ELSE IF ~r.fill_ok THEN "FillersPushedOK"
       ELSE IF r.probe \/ r.unexported # <<>> THEN "ImportAfterPushNoop"
       ELSE "ok"
  ELSE "harness:unknown-op"

Diverges(r) ==
  IF r.op = "Fetch" THEN Obs(r.post) # FetchF(par, cur)
  ELSE IF r.op = "Push" THEN
       \/ Obs(r.post) # PushF(cur, ToSet(r.set))
       \/ ToSet(r.asked) # PushAsked(cur, ToSet(r.set))
       \/ ToSet(r.pushed) # PushPushed(cur, ToSet(r.set))
       \/ ToSet(r.rejected) # PushRejected(cur, ToSet(r.set))
  ELSE FALSE

NoState == [local |-> <<>>, track |-> <<>>, remote |-> <<>>, known |-> {}]

Init == l = 1 /\ cur = NoState /\ par = <<>>
Next ==
  \/ /\ l <= Len(Rec)
     /\ LET r == Rec[l]  v == Verdict(r) IN
          /\ (IF v = "ok" THEN TRUE ELSE PrintT(<<"BAD", l, v>>))
          /\ (IF v \in {"ok", "FetchOK", "PushOK", "FillersPushedOK", "ImportAfterFetchNoop", "ImportAfterPushNoop"} /\ Diverges(r)
              THEN PrintT(<<"DIVERGES", l>>) ELSE TRUE)
          /\ IF r.op \in {"panic", "error", "harness_error"}
             THEN UNCHANGED <<cur, par>>
             ELSE /\ cur' = Obs(r.post)
                  /\ par' = IF r.op = "reset" THEN r.par ELSE par
     /\ l' = l + 1
  \/ /\ l = Len(Rec) + 1
     /\ PrintT(<<"JUDGED", Len(Rec)>>)
     /\ l' = l + 1
     /\ UNCHANGED <<cur, par>>
Spec == Init /\ [][Next]_vars
=============================================================================
