------------------------- MODULE MC_MergeAlgebra -------------------------
(* Design-level check: the reference transcriptions of MergeAlgebra meet   *)
(* the C01/C02 contracts on every merge over Values up to MaxLen terms and *)
(* every nesting up to MaxOuter x MaxInner.  The domain is grown by Next   *)
(* (not enumerated in Init) so that TLC's workers share it.                *)
EXTENDS MergeAlgebra, TLC

CONSTANTS Values, MaxLen, NestValues, MaxOuter, MaxInner, Bug

VARIABLE st            \* [k |-> "m", v |-> a merge] or [k |-> "mm", v |-> a nested merge]

Inner == UNION {[1..n -> NestValues] : n \in {k \in 1..MaxInner : Odd(k)}}

Init == \/ \E v \in Values : st = [k |-> "m", v |-> <<v>>]
        \/ \E a \in Inner : st = [k |-> "mm", v |-> <<a>>]

Next == \/ /\ st.k = "m" /\ Len(st.v) + 2 <= MaxLen
           /\ \E a, b \in Values : st' = [st EXCEPT !.v = st.v \o <<a, b>>]
        \/ /\ st.k = "mm" /\ Len(st.v) + 2 <= MaxOuter
           /\ \E a, b \in Inner : st' = [st EXCEPT !.v = st.v \o <<a, b>>]

Spec == Init /\ [][Next]_st

Markers(n) == [i \in 1..n |-> 100 + i]

(* seeded design bugs for the negative configs (anti-vacuity) *)
FlattenNoRotate(mm) ==    \* rotates a removed inner merge but forgets the pair swap
  LET Rot(b) == [i \in 1..Len(b) |-> IF i < Len(b) THEN b[i + 1] ELSE b[1]]
      RECURSIVE F(_)
      F(i) == IF i > Len(mm) THEN <<>>
              ELSE (IF Odd(i) THEN mm[i] ELSE Rot(mm[i])) \o F(i + 1)
  IN F(1)
SimplifyNoSwap(m) ==      \* drops the pair without aligning the add first
  LET RECURSIVE S(_, _)
      S(idx, ai) ==
        IF ai > Len(idx) THEN idx
        ELSE LET cands == {r \in 1..Len(idx) : ~Odd(r) /\ m[idx[r]] = m[idx[ai]]}
             IN IF cands = {} THEN S(idx, ai + 2)
                ELSE LET r == Min(cands)
                     IN S(SubSeq(idx, 1, r - 1) \o SubSeq(idx, r + 2, Len(idx)), ai)
      mp == S([i \in 1..Len(m) |-> i], 1)
  IN [i \in 1..Len(mp) |-> m[mp[i]]]
TrivialInverted(m, accept) ==
  LET nz == NonZero(m)
  IN IF Cardinality(nz) = 1 THEN CHOOSE v \in nz : TRUE
     ELSE IF Cardinality(nz) = 2 /\ accept THEN CHOOSE v \in nz : Count(m, v) < 0
     ELSE NoValue

TheSimplify(m) == IF Bug = "simplify" THEN SimplifyNoSwap(m) ELSE Simplify(m)
TheFlatten(mm) == IF Bug = "flatten" THEN FlattenNoRotate(mm) ELSE Flatten(mm)
TheTrivial(m, a) == IF Bug = "trivial" /\ Len(m) > 3 THEN TrivialInverted(m, a) ELSE TrivialRef(m, a)

InvSimplify ==
  st.k = "m" =>
    LET m == st.v  s == TheSimplify(m) IN
      /\ SimplifyOK(m, s)
      /\ TheSimplify(s) = s
      /\ WriteBackOK(m, s, Markers(Len(s)), UpdateFromSimplified(m, Markers(Len(s))))

InvTrivial ==
  st.k = "m" =>
    \A a \in BOOLEAN :
      /\ TrivialOK(st.v, a, TheTrivial(st.v, a))
      /\ Len(st.v) <= 3 => TrivialFast(st.v, a) = TrivialCounting(st.v, a)
      \* resolution is a function of the meaning, not of the term order
      /\ TrivialCounting(Simplify(st.v), a) = TrivialCounting(st.v, a)

InvFlatten ==
  st.k = "mm" =>
    LET o == TheFlatten(st.v) IN
      /\ FlattenOK(st.v, o)
      /\ IsMerge(o)
=============================================================================
