------------------------ MODULE Trace_MergeAlgebra ------------------------
(* I->S binding for C01/C02: every record is one call of the real code     *)
(* (jjconf merge record); TLC judges it against the contracts.             *)
EXTENDS MergeAlgebra, Json, IOUtils, TLC

Rec == ndJsonDeserialize(IOEnv.TRACE)

VARIABLE l

Verdict(r) ==
  IF r.op = "simplify" THEN
       IF ~IsMerge(r.inp) THEN "harness:not-a-merge"
       ELSE IF ~SimplifyOK(r.inp, r.out) THEN "SimplifyOK"
       ELSE IF r.out2 # r.out THEN "SimplifyIdempotent"
       ELSE IF ~WriteBackOK(r.inp, r.out, r.edit, r.wb) THEN "WriteBackOK"
       ELSE "ok"
  ELSE IF r.op = "flatten" THEN
       IF ~FlattenOK(r.inp, r.out) THEN "FlattenOK" ELSE "ok"
  ELSE IF r.op = "trivial" THEN
       IF ~TrivialOK(r.inp, r.accept, r.out) THEN "TrivialOK"
       ELSE IF r.out # r.out_method THEN "TrivialMethodAgrees"
       ELSE "ok"
  ELSE IF r.op = "panic" THEN "Panic"
  ELSE IF r.op = "domain" THEN "ok"
  ELSE "harness:unknown-op"

(* divergence from the reference transcription: reported, never a violation *)
Diverges(r) ==
  IF r.op = "simplify" THEN r.out # Simplify(r.inp)
  ELSE IF r.op = "flatten" THEN r.out # Flatten(r.inp)
  ELSE IF r.op = "trivial" THEN r.out # TrivialRef(r.inp, r.accept)
  ELSE FALSE

Init == l = 1
Next ==
  \/ /\ l <= Len(Rec)
     /\ LET v == Verdict(Rec[l]) IN
          /\ (IF v = "ok" THEN TRUE ELSE PrintT(<<"BAD", l, v>>))
          /\ (IF Diverges(Rec[l]) THEN PrintT(<<"DIVERGES", l>>) ELSE TRUE)
     /\ l' = l + 1
  \/ /\ l = Len(Rec) + 1
     /\ PrintT(<<"JUDGED", Len(Rec)>>)
     /\ l' = l + 1
Spec == Init /\ [][Next]_l
=============================================================================
