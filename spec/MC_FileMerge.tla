--------------------------- MODULE MC_FileMerge ---------------------------
(* Design-level check of C04 on slot files: a file is  A0 s1 A1 .. sk Ak   *)
(* (unique anchor lines Ai, slot i holds one of Values as a line unique to *)
(* that slot).  The partition is the positional diff (anchors always       *)
(* match, a slot is a Different hunk unless all terms agree on it).        *)
(*                                                                         *)
(* TLC shows, for EVERY outcome the per-hunk contract FileMergeOK allows   *)
(* (not only for the reference choice), that the partition-independent     *)
(* laws hold -- i.e. (iii) follows from (ii) -- and that the reference     *)
(* result is the slot-wise trivial merge (the assumption spec/Tree makes). *)
(* Terms are grown two at a time by Next.                                  *)
EXTENDS FileMerge, TLC

CONSTANTS Slots, Values, MaxTerms, Bug

VARIABLE vecs          \* odd-length sequence of slot vectors [1..Slots -> Values]

Vec == [1..Slots -> Values]
Init == \E v \in Vec : vecs = <<v>>
Next == /\ Len(vecs) + 2 <= MaxTerms
        /\ \E a, b \in Vec : vecs' = vecs \o <<a, b>>
Spec == Init /\ [][Next]_vecs

Anchor(i) == 100 + i
SlotLine(i, v) == 10 * i + v
Render(vec) == [p \in 1..(2 * Slots + 1) |->
                  IF Odd(p) THEN Anchor((p - 1) \div 2) ELSE SlotLine(p \div 2, vec[p \div 2])]
Terms == [k \in 1..Len(vecs) |-> Render(vecs[k])]
LH == PositionalDiff(DiffInputs(Terms))
WH == [h \in 1..Len(LH) |-> <<>>]

(* seeded design bugs *)
WrongTerm(os) ==      \* a resolved conflict hunk takes a base's text instead of the side's
  [i \in 1..Len(os) |->
     IF os[i].res /\ os[i].m # <<>> /\ Len(os[i].m) > 1 /\ Neg(os[i].m) # {}
     THEN [os[i] EXCEPT !.v = CHOOSE v \in Neg(os[i].m) : TRUE] ELSE os[i]]
Reversed(os) == [i \in 1..Len(os) |-> os[Len(os) + 1 - i]]
Outcomes(accept, ref) ==
  LET S == AllOutcomes(Terms, accept, "line", LH, WH, ref) IN
  IF Bug = "wrongterm" THEN {WrongTerm(os) : os \in S}
  ELSE IF Bug = "order" THEN {Reversed(os) : os \in S}
  ELSE S
TheMerged(os, n) ==
  IF Bug = "arity" /\ ~AllRes(os) THEN SubSeq(MergedOf(os, n), 1, n - 2) ELSE MergedOf(os, n)

InvPartition == PartitionOK(Terms, "line", LH, WH)

InvLaws ==
  \A accept \in BOOLEAN :
    \A os \in Outcomes(accept, FALSE) :
      LET mh == MergeHunksOf(os)  m == TheMerged(os, Len(Terms))  t == TryOf(os) IN
        /\ LawTrivial(Terms, accept, mh, m, t)
        /\ LawShape(Terms, mh, m, t)
        /\ LawHunksAgree(Terms, mh, m)

(* the reference is one of the allowed outcomes and is the slot-wise merge *)
SlotMerge(s) == [k \in 1..Len(vecs) |-> vecs[k][s]]
InvSlotwise ==
  \A accept \in BOOLEAN :
    LET R == Outcomes(accept, TRUE) IN
      /\ Cardinality(R) = 1
      /\ R \subseteq Outcomes(accept, FALSE)
      /\ \A os \in R :
           LET t == TryOf(os)
               slotRes == [s \in 1..Slots |-> TrivialRef(SlotMerge(s), accept)]
           IN /\ t.some = (\A s \in 1..Slots : slotRes[s] # NoValue)
              /\ t.some => t.content = Render(slotRes)
=============================================================================
