SPECIFICATION TSpec
CONSTANTS
  Guards = {"G1", "G2", "G3", "G4", "G5"}
CHECK_DEADLOCK FALSE
