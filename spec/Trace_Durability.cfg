SPECIFICATION TSpec
CONSTANTS
  Guards = {"G2", "G3", "G4", "G5"}
CHECK_DEADLOCK FALSE
