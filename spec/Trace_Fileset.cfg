SPECIFICATION Spec
CONSTANTS
  Comps = {"a", "ab", "A"}
  MaxDepth = 3
CHECK_DEADLOCK FALSE
