SPECIFICATION Spec
CONSTANTS
  Mode = "alias"
  MaxSent = 0
  Samples = 15000
  SampleLen = 0
  MaxDerive = 0
  Bug = "none"
  Emit = TRUE
INVARIANTS InvStack InvOutcome InvStatic InvDerive EmitInv
CHECK_DEADLOCK FALSE
