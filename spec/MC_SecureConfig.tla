--------------------------- MODULE MC_SecureConfig ---------------------------
(* Bounded model checking of SecureConfig (exhaustive, history hidden by a   *)
(* VIEW) and behaviour generator for the S->I binding (-simulate): every     *)
(* behaviour of MaxSteps actions is printed as <<"REPLAY", json>>.           *)
EXTENDS SecureConfig, TLC, Json

CONSTANTS MaxSteps, Emit,
          Bias      \* generator only: 0 = off, n > 0 = at most n actions in a row without a Load

VARIABLE hist        \* the actions taken so far
mcvars == <<repos, cfg, used, last, hist>>
View == <<repos, cfg, used, last>>

Step(a, r, d, s) == [a |-> a, r |-> r, d |-> d, s |-> s]

MCInit == Init /\ hist = <<>>
RECURSIVE QuietRun(_)       \* number of trailing non-Load actions
QuietRun(h) == IF h = <<>> \/ h[Len(h)].a = "Load" THEN 0 ELSE 1 + QuietRun(SubSeq(h, 1, Len(h) - 1))
MustLoad == Bias > 0 /\ QuietRun(hist) >= Bias /\ \E r \in Repos : ENABLED Load(r)

MCNext ==
  /\ Len(hist) < MaxSteps
  /\ \/ \E r \in Repos : \/ Create(r) /\ hist' = Append(hist, Step("Create", r, "", ""))
                         \/ Delete(r) /\ hist' = Append(hist, Step("Delete", r, "", ""))
                         \/ Load(r) /\ hist' = Append(hist, Step("Load", r, "", ""))
     \/ \E r, d \in Repos : \/ Copy(r, d) /\ hist' = Append(hist, Step("Copy", r, d, ""))
                            \/ Move(r, d) /\ hist' = Append(hist, Step("Move", r, d, ""))
                            \/ Alias(r, d) /\ hist' = Append(hist, Step("Alias", r, d, ""))
     \/ \E r \in Repos, s \in BadIds \cup ValidIds : WriteId(r, s) /\ hist' = Append(hist, Step("WriteId", r, "", s))
     \/ \E i \in ValidIds, c \in Contents : Edit(i, c) /\ hist' = Append(hist, Step("Edit", "", i, c))
  /\ MustLoad => hist'[Len(hist')].a = "Load"
MCSpec == MCInit /\ [][MCNext]_mcvars

EmitInv == (Emit /\ Len(hist) = MaxSteps) => PrintT(<<"REPLAY", ToJson(hist)>>)
=============================================================================
