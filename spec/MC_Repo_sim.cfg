SPECIFICATION SeededSpec
CONSTANTS
  MaxCommits = 11
  MaxOps = 5
  MaxActs = 3
  EmptyPolicies = {"keep", "all"}
  AllowFinding = FALSE
  Bug = "none"
INVARIANTS InvC10 InvC11 InvC13 InvC46 InvNoPanic
CHECK_DEADLOCK FALSE
