--------------------------- MODULE Trace_RefNames ---------------------------
(* Judge for C33: answers of the real parse_git_ref / to_git_ref_name (the  *)
(* latter observed through export_refs) / validate_remote_name (observed    *)
(* through add_remote) on the TLC-generated cases of MC_RefNames.           *)
EXTENDS RefNames, Json, IOUtils, TLC

Rec == ndJsonDeserialize(IOEnv.TRACE)

VARIABLE l

Verdict(r) ==
  IF r.op = "export" THEN
       IF ~r.obs THEN (IF Exportable(r.s) THEN "ExportFailed" ELSE "ok")
       ELSE IF ~ExportParseOK(r.s, r.ref, r.back) THEN "ExportParseOK"
       ELSE "ok"
  ELSE IF r.op = "import" THEN
       IF ~ParsedIsExportable(r.r, r.sym) THEN "ParsedIsExportable"
       ELSE IF ~r.obs THEN (IF WellFormed(r.r) /\ r.sym.some THEN "ExportFailed" ELSE "ok")
       ELSE IF ~ParseExportOK(r.r, r.sym, r.ref2) THEN "ParseExportOK"
       ELSE "ok"
  ELSE IF r.op = "remote" THEN
       \* a remote that the spec calls valid must be accepted (else symbols on it
       \* could not be exported); one the spec calls invalid must be rejected
       \* (else the one-to-one law does not cover it)
       IF ~r.obs THEN "harness:remote-not-observable"
       ELSE IF r.valid # ValidRemote(r.r) THEN "ValidRemoteOK"
       ELSE "ok"
  ELSE IF r.op = "panic" THEN "Panic"
  ELSE IF r.op = "skipped" THEN "harness:skipped"
  ELSE "harness:unknown-op"

Diverges(r) ==
  IF r.op = "export" THEN r.obs /\ r.ref # ToRef(r.s)
  ELSE IF r.op = "import" THEN r.sym # Parse(r.r)
  ELSE FALSE

Init == l = 1
Next ==
  \/ /\ l <= Len(Rec)
     /\ LET v == Verdict(Rec[l]) IN
          /\ (IF v = "ok" THEN TRUE ELSE PrintT(<<"BAD", l, v>>))
          /\ (IF Diverges(Rec[l]) THEN PrintT(<<"DIVERGES", l>>) ELSE TRUE)
     /\ l' = l + 1
  \/ /\ l = Len(Rec) + 1
     /\ PrintT(<<"JUDGED", Len(Rec)>>)
     /\ l' = l + 1
Spec == Init /\ [][Next]_l
=============================================================================
