------------------------------ MODULE OpHeads ------------------------------
(* The operation-head store (lib/src/op_heads_store.rs resolve_op_heads,    *)
(* lib/src/simple_op_heads_store.rs, lib/src/transaction.rs publish) as a   *)
(* state machine: one action per step that touches the heads directory.     *)
(*                                                                          *)
(* A process runs commands.  A command is                                   *)
(*    load_at_head  = resolve_op_heads:  Read1 [RLock Read2 [RAdd RRm*] RUnlock] *)
(*    commit        = Transaction::write (private, folded into PAdd) then   *)
(*                    UnpublishedOperation::publish: PLock PAdd PRm PUnlock *)
(* The final loader (process Final) only runs load_at_head, after all other *)
(* processes have finished or crashed ("once activity stops and the         *)
(* repository is loaded").                                                  *)
(*                                                                          *)
(* Operations are named by naturals; `ops` maps each written operation to   *)
(* the set of its parents.  The heads directory is the set `heads`; listing *)
(* it is one atomic step (assumption A1).  With LocksWork = FALSE the lock  *)
(* never blocks (NFS-like), as with verif_hooks::set_lock_disabled(true).   *)
EXTENDS Naturals, FiniteSets, Sequences

CONSTANTS Procs,       \* set of process ids (naturals > 0)
          Final,       \* id of the final loader (0)
          NCmds,       \* commands per process
          LocksWork,   \* BOOLEAN
          MaxCrashes   \* total number of crashes allowed

NoProc == 99
NoOp == 98
AllProcs == Procs \cup {Final}

VARIABLES ops, heads, lock, published,
          pc, base, new, mpar, rm, cmds, crashes

vars == <<ops, heads, lock, published, pc, base, new, mpar, rm, cmds, crashes>>

RECURSIVE AncOps(_, _)
AncOps(o, S) ==       \* ancestors (inclusive) of the set S of operations
  LET P == UNION {o[x] : x \in S} IN IF P \subseteq S THEN S ELSE AncOps(o, S \cup P)
IsAnc(o, a, d) == a \in AncOps(o, {d})
HeadsOf(o, S) == {x \in S : ~\E y \in S : y # x /\ IsAnc(o, x, y)}

NextId == Cardinality(DOMAIN ops)

Init ==
  /\ ops = [x \in {0} |-> {}]
  /\ heads = {0}
  /\ lock = NoProc
  /\ published = {0}
  /\ pc = [p \in AllProcs |-> IF p = Final THEN "wait" ELSE "read1"]
  /\ base = [p \in AllProcs |-> NoOp]
  /\ new = [p \in AllProcs |-> NoOp]
  /\ mpar = [p \in AllProcs |-> {}]
  /\ rm = [p \in AllProcs |-> {}]
  /\ cmds = [p \in AllProcs |-> 0]
  /\ crashes = 0

Quiet == \A p \in Procs : pc[p] \in {"done", "crashed", "failed"}

(* where a process goes once load_at_head has produced `base` *)
AfterLoad(p) == IF p = Final THEN "done" ELSE "plock"

LockFree == LocksWork => lock = NoProc
Acquire(p) == IF LocksWork THEN p ELSE lock
Release(p) == IF lock = p THEN NoProc ELSE lock

----------------------------------------------------------------------------
(* load_at_head *)

FinalStart == /\ pc[Final] = "wait" /\ Quiet
              /\ pc' = [pc EXCEPT ![Final] = "read1"]
              /\ UNCHANGED <<ops, heads, lock, published, base, new, mpar, rm, cmds, crashes>>

(* first, unlocked listing *)
Read1(p) ==
  /\ pc[p] = "read1"
  /\ IF heads = {} THEN pc' = [pc EXCEPT ![p] = "failed"] /\ UNCHANGED base
     ELSE IF Cardinality(heads) = 1
          THEN /\ base' = [base EXCEPT ![p] = CHOOSE h \in heads : TRUE]
               /\ pc' = [pc EXCEPT ![p] = AfterLoad(p)]
          ELSE pc' = [pc EXCEPT ![p] = "rlock"] /\ UNCHANGED base
  /\ UNCHANGED <<ops, heads, lock, published, new, mpar, rm, cmds, crashes>>

RLock(p) ==
  /\ pc[p] = "rlock" /\ LockFree
  /\ lock' = Acquire(p)
  /\ pc' = [pc EXCEPT ![p] = "read2"]
  /\ UNCHANGED <<ops, heads, published, base, new, mpar, rm, cmds, crashes>>

(* second listing, under the lock; ancestors filtered; merge operation      *)
(* prepared (written to the op store, not yet visible in heads)             *)
Read2(p) ==
  /\ pc[p] = "read2"
  /\ IF heads = {} THEN                       \* assert!(!op_head_ids.is_empty())
          /\ pc' = [pc EXCEPT ![p] = "failed"] /\ lock' = Release(p)
          /\ UNCHANGED <<base, new, mpar, rm>>
     ELSE IF Cardinality(heads) = 1 THEN
          /\ base' = [base EXCEPT ![p] = CHOOSE h \in heads : TRUE]
          /\ new' = [new EXCEPT ![p] = NoOp]
          /\ pc' = [pc EXCEPT ![p] = "runlock"]
          /\ UNCHANGED <<lock, mpar, rm>>
     ELSE LET H == HeadsOf(ops, heads)  anc == heads \ H IN
          IF Cardinality(H) = 1 THEN
               /\ new' = [new EXCEPT ![p] = CHOOSE h \in H : TRUE]
               /\ mpar' = [mpar EXCEPT ![p] = {}]
               /\ rm' = [rm EXCEPT ![p] = anc]
               /\ pc' = [pc EXCEPT ![p] = "radd"]
               /\ UNCHANGED <<lock, base>>
          ELSE /\ new' = [new EXCEPT ![p] = NoOp]       \* fresh merge operation
               /\ mpar' = [mpar EXCEPT ![p] = H]
               /\ rm' = [rm EXCEPT ![p] = anc \cup H]
               /\ pc' = [pc EXCEPT ![p] = "radd"]
               /\ UNCHANGED <<lock, base>>
  /\ UNCHANGED <<ops, heads, published, cmds, crashes>>

(* update_op_heads: add the new head first ...                              *)
(* o is the name of the added operation: the existing single head, or a     *)
(* fresh name for the merge operation                                       *)
RAdd(p, o) ==
  /\ pc[p] = "radd"
  /\ IF mpar[p] = {} THEN o = new[p] /\ UNCHANGED ops
     ELSE \/ o \notin DOMAIN ops /\ ops' = [x \in DOMAIN ops \cup {o} |-> IF x = o THEN mpar[p] ELSE ops[x]]
          \/ o \in DOMAIN ops /\ ops[o] = mpar[p] /\ UNCHANGED ops   \* identical merge written twice
  /\ heads' = heads \cup {o}
  /\ published' = published \cup {o}
  /\ new' = [new EXCEPT ![p] = o]
  /\ pc' = [pc EXCEPT ![p] = IF rm[p] \ {o} = {} THEN "runlock" ELSE "rrm"]
  /\ rm' = [rm EXCEPT ![p] = rm[p] \ {o}]
  /\ UNCHANGED <<lock, base, mpar, cmds, crashes>>

(* ... then remove the old heads, one file per step, in any order *)
RRm(p, o) ==
  /\ pc[p] = "rrm" /\ o \in rm[p]
  /\ heads' = heads \ {o}
  /\ rm' = [rm EXCEPT ![p] = rm[p] \ {o}]
  /\ pc' = [pc EXCEPT ![p] = IF rm[p] \ {o} = {} THEN "runlock" ELSE "rrm"]
  /\ UNCHANGED <<ops, lock, published, base, new, mpar, cmds, crashes>>

RUnlock(p) ==
  /\ pc[p] = "runlock"
  /\ lock' = Release(p)
  /\ base' = [base EXCEPT ![p] = IF new[p] = NoOp THEN base[p] ELSE new[p]]
  /\ pc' = [pc EXCEPT ![p] = AfterLoad(p)]
  /\ UNCHANGED <<ops, heads, published, new, mpar, rm, cmds, crashes>>

----------------------------------------------------------------------------
(* commit: the operation (parent = base) is written to the op store by      *)
(* Transaction::write before the lock is taken; it becomes visible at PAdd  *)

PLock(p) ==
  /\ pc[p] = "plock" /\ LockFree
  /\ lock' = Acquire(p)
  /\ pc' = [pc EXCEPT ![p] = "padd"]
  /\ UNCHANGED <<ops, heads, published, base, new, mpar, rm, cmds, crashes>>

PAdd(p, o) ==
  /\ pc[p] = "padd"
  /\ o \notin DOMAIN ops
  /\ ops' = [x \in DOMAIN ops \cup {o} |-> IF x = o THEN {base[p]} ELSE ops[x]]
  /\ heads' = heads \cup {o}
  /\ published' = published \cup {o}
  /\ new' = [new EXCEPT ![p] = o]
  /\ pc' = [pc EXCEPT ![p] = "prm"]
  /\ UNCHANGED <<lock, base, mpar, rm, cmds, crashes>>

PRm(p) ==
  /\ pc[p] = "prm"
  /\ heads' = heads \ {base[p]}        \* a missing file is tolerated
  /\ pc' = [pc EXCEPT ![p] = "punlock"]
  /\ UNCHANGED <<ops, lock, published, base, new, mpar, rm, cmds, crashes>>

PUnlock(p) ==
  /\ pc[p] = "punlock"
  /\ lock' = Release(p)
  /\ cmds' = [cmds EXCEPT ![p] = cmds[p] + 1]
  /\ pc' = [pc EXCEPT ![p] = IF cmds[p] + 1 < NCmds THEN "read1" ELSE "done"]
  /\ UNCHANGED <<ops, heads, published, base, new, mpar, rm, crashes>>

(* a process is killed; the OS releases its flock *)
Crash(p) ==
  /\ p \in Procs
  /\ pc[p] \notin {"done", "crashed", "failed"}
  /\ crashes < MaxCrashes
  /\ crashes' = crashes + 1
  /\ pc' = [pc EXCEPT ![p] = "crashed"]
  /\ lock' = Release(p)
  /\ UNCHANGED <<ops, heads, published, base, new, mpar, rm, cmds>>

Step(p) ==
  \/ Read1(p) \/ RLock(p) \/ Read2(p) \/ RAdd(p, IF mpar[p] = {} THEN new[p] ELSE NextId)
  \/ (\E o \in rm[p] : RRm(p, o)) \/ RUnlock(p)
  \/ PLock(p) \/ PAdd(p, NextId) \/ PRm(p) \/ PUnlock(p)

Next == FinalStart \/ (\E p \in AllProcs : Step(p)) \/ (\E p \in Procs : Crash(p))

Spec == Init /\ [][Next]_vars
FairSpec == Spec /\ \A p \in AllProcs : WF_vars(Step(p)) /\ WF_vars(FinalStart)

----------------------------------------------------------------------------
(* C14 *)

(* readers always find at least one head *)
NonEmptyHeads == heads # {}
(* every published operation remains reachable from the heads *)
PublishedReachable == \A o \in published : \E h \in heads : IsAnc(ops, o, h)
(* every head is an operation that exists in the op store *)
HeadsExist == heads \subseteq DOMAIN ops
(* nobody fails: no reader ever sees an empty directory *)
NoFailure == \A p \in AllProcs : pc[p] # "failed"
(* once activity stops and the repository is loaded: one head, descending   *)
(* from every published operation                                           *)
FinalOK ==
  pc[Final] = "done" =>
    /\ Cardinality(heads) = 1
    /\ \A o \in published : \A h \in heads : IsAnc(ops, o, h)
    /\ base[Final] \in heads

Safety == NonEmptyHeads /\ PublishedReachable /\ HeadsExist /\ NoFailure /\ FinalOK

(* liveness, checked under fairness without a state constraint *)
EventuallyLoaded == <>[](pc[Final] = "done")
=============================================================================
