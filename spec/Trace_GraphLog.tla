--------------------------- MODULE Trace_GraphLog ---------------------------
(* I->S judge for C39: a record is the (node, edges) stream the real graph   *)
(* iterator produced for Commits(S) on a real repository, without            *)
(* (skip = FALSE) or with transitive-edge skipping, through                  *)
(* DefaultReadonlyIndexRevset::iter_graph_impl or the public                 *)
(* Revset::stream_graph.                                                     *)
EXTENDS GraphLog, Json, IOUtils, TLC

Rec == ndJsonDeserialize(IOEnv.TRACE)

VARIABLE l

GraphOfRec(r) == [c \in 0..Len(r.par) |-> IF c = 0 THEN <<>> ELSE r.par[c]]
IdsOK(r, G) ==
  /\ TopoNumbered(G)
  /\ GlSeqToSet(r.s) \subseteq DOMAIN G
  /\ \A i \in 1..Len(r.out) :
       /\ r.out[i][1] \in DOMAIN G
       /\ \A k \in 1..Len(r.out[i][2]) : r.out[i][2][k][1] \in DOMAIN G

Verdict(r) ==
  IF r.op = "panic" THEN "Panic"
  ELSE IF r.op # "graph" THEN "harness:unknown-op"
  ELSE LET G == GraphOfRec(r) IN
       IF ~IdsOK(r, G) THEN "UnknownCommitInGraph"
       ELSE GraphVerdict(G, GlSeqToSet(r.s), r.out, r.skip)

Diverges(r) ==
  /\ r.op = "graph"
  /\ LET G == GraphOfRec(r) IN
       IdsOK(r, G) /\ GraphVerdict(G, GlSeqToSet(r.s), r.out, r.skip) = "ok"
       /\ ~MatchesReference(G, GlSeqToSet(r.s), r.out, r.skip)

Init == l = 1
Next ==
  \/ /\ l <= Len(Rec)
     /\ LET v == Verdict(Rec[l]) IN
          /\ (IF v = "ok" THEN TRUE ELSE PrintT(<<"BAD", l, v>>))
          /\ (IF Diverges(Rec[l]) THEN PrintT(<<"DIVERGES", l>>) ELSE TRUE)
     /\ l' = l + 1
  \/ /\ l = Len(Rec) + 1
     /\ PrintT(<<"JUDGED", Len(Rec)>>)
     /\ l' = l + 1
Spec == Init /\ [][Next]_l
=============================================================================
