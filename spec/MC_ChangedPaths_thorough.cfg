SPECIFICATION Spec
CONSTANTS
  MaxCommits = 5
  MaxParents = 3
  Values = {1, 2, 3}
  Bug = "none"
INVARIANTS InvSingleParent InvAgreeingParents InvFastForward InvThreeWay InvParentOrder
CHECK_DEADLOCK FALSE
