SPECIFICATION Spec
CONSTANT Bug = "hash_no_length"
CHECK_DEADLOCK FALSE
