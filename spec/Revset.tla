------------------------------- MODULE Revset -------------------------------
(* C19: revset evaluation matches set semantics.                            *)
(*                                                                          *)
(* Expressions are records mirroring jj_lib::revset::RevsetExpression (the  *)
(* JSON AST the harness turns into a ResolvedRevsetExpression):             *)
(*   [t |-> "none"|"all"|"vheads"|"root"|"forks"]                           *)
(*   [t |-> "commits", ids |-> <<c, ...>>]                                  *)
(*   [t |-> "anc", x, lo, hi, plo, phi]     generation range [lo, hi),      *)
(*                                          parent-index range [plo, phi)   *)
(*   [t |-> "desc", x, lo, hi]                                              *)
(*   [t |-> "range", r, h, lo, hi, plo, phi]   [t |-> "dagrange", r, h]     *)
(*   [t |-> "connected"|"heads"|"roots"|"forkpoint"|"mergepoint"|"not", x]  *)
(*   [t |-> "reachable", s, d]   [t |-> "latest", x, n]                     *)
(*   [t |-> "coalesce"|"union"|"inter"|"diff", a, b]                        *)
(*   [t |-> "within", x, vh]     (WithinVisibility)                         *)
(* Inf (1000) stands for an unbounded upper end.                            *)
(*                                                                          *)
(* Eval(e, C) is the set the expression DENOTES (docs/revsets.md) over the  *)
(* graph C.G with visible heads C.vh; as documented under "hidden           *)
(* revisions", all() is the ancestors of the visible heads plus of every    *)
(* commit the expression mentions explicitly (C.refd).  Eval is defined by  *)
(* structural recursion with the Dag operators; it is the oracle.           *)
EXTENDS Dag, Integers

Inf == 1000
RsSeqToSet(s) == {s[i] : i \in 1..Len(s)}
RsNoDup(s) == \A i, j \in 1..Len(s) : i # j => s[i] # s[j]

(* commits mentioned explicitly (resolve_referenced_commits): within() opens *)
(* a new scope whose visible heads count as mentioned for the outer one     *)
RECURSIVE Refd(_)
Refd(e) ==
  IF e.t = "commits" THEN RsSeqToSet(e.ids)
  ELSE IF e.t \in {"none", "all", "vheads", "root", "forks"} THEN {}
  ELSE IF e.t \in {"anc", "desc", "connected", "heads", "roots", "forkpoint", "mergepoint", "not", "latest"}
       THEN Refd(e.x)
  ELSE IF e.t \in {"range", "dagrange"} THEN Refd(e.r) \cup Refd(e.h)
  ELSE IF e.t = "reachable" THEN Refd(e.s) \cup Refd(e.d)
  ELSE IF e.t = "within" THEN RsSeqToSet(e.vh) \cup Refd(e.x)
  ELSE Refd(e.a) \cup Refd(e.b)

(* parents of c whose 0-based index lies in [plo, phi) *)
ParentsIn(G, c, plo, phi) == {G[c][i] : i \in {k \in 1..Len(G[c]) : k - 1 >= plo /\ k - 1 < phi}}

(* commits reachable from H by k parent steps (within the parent-index      *)
(* range), lo <= k < hi.  hiIncl seeds an off-by-one bug for the negative   *)
(* config.                                                                  *)
AncGenR(G, H, lo, hi, plo, phi, hiIncl) ==
  LET n == Cardinality(DOMAIN G)
      RECURSIVE L(_, _, _)
      L(F, k, acc) ==
        IF F = {} \/ k > n \/ (IF hiIncl THEN k > hi ELSE k >= hi) THEN acc
        ELSE L(UNION {ParentsIn(G, c, plo, phi) : c \in F}, k + 1, IF k >= lo THEN acc \cup F ELSE acc)
  IN L(H, 0, {})
AncGen(G, H, lo, hi, plo, phi) == AncGenR(G, H, lo, hi, plo, phi, FALSE)

(* commits of W reached from R by k child steps inside W, lo <= k < hi *)
DescGen(G, R, lo, hi, W) ==
  LET n == Cardinality(DOMAIN G)
      RECURSIVE L(_, _, _)
      L(F, k, acc) ==
        IF F = {} \/ k > n \/ k >= hi THEN acc
        ELSE L({d \in W : ParentSet(G, d) \cap F # {}}, k + 1, IF k >= lo THEN acc \cup F ELSE acc)
  IN L(R \cap W, 0, {})

(* connected components (parent/child edges inside D) of D that contain a source *)
ReachableIn(G, S, D) ==
  LET Adj(c) == {d \in D : d \in ParentSet(G, c) \/ c \in ParentSet(G, d)}
      RECURSIVE Grow(_)
      Grow(T) == LET T2 == T \cup UNION {Adj(c) : c \in T} IN IF T2 = T THEN T ELSE Grow(T2)
  IN Grow(S \cap D)

(* the n latest by committer time; times are distinct in the traces *)
LatestN(X, n, ts) == {c \in X : Cardinality({d \in X : ts[d] > ts[c]}) < n}

RECURSIVE Eval(_, _)
Eval(e, C) ==
  LET G == C.G
      HR == C.vh \cup C.refd
      All == AncOf(G, HR)
  IN
  IF e.t = "none" THEN {}
  ELSE IF e.t = "all" THEN All
  ELSE IF e.t = "vheads" THEN C.vh
  ELSE IF e.t = "root" THEN {0}
  ELSE IF e.t = "commits" THEN RsSeqToSet(e.ids)
  ELSE IF e.t = "anc" THEN AncGen(G, Eval(e.x, C), e.lo, e.hi, e.plo, e.phi)
  ELSE IF e.t = "desc" THEN DescGen(G, Eval(e.x, C), e.lo, e.hi, All)
  ELSE IF e.t = "range" THEN AncGen(G, Eval(e.h, C), e.lo, e.hi, e.plo, e.phi) \ AncOf(G, Eval(e.r, C))
  ELSE IF e.t = "dagrange" THEN DagRange(G, Eval(e.r, C), Eval(e.h, C))
  ELSE IF e.t = "connected" THEN LET X == Eval(e.x, C) IN DagRange(G, X, X)
  ELSE IF e.t = "reachable" THEN ReachableIn(G, Eval(e.s, C), Eval(e.d, C))
  ELSE IF e.t = "heads" THEN Heads(G, Eval(e.x, C))
  ELSE IF e.t = "roots" THEN Roots(G, Eval(e.x, C))
  ELSE IF e.t = "forkpoint" THEN
       LET X == Eval(e.x, C) IN
       IF X = {} THEN {} ELSE Heads(G, {c \in DOMAIN G : \A x \in X : IsAncestor(G, c, x)})
  ELSE IF e.t = "mergepoint" THEN
       LET X == Eval(e.x, C) IN
       IF X = {} THEN {} ELSE Roots(G, {d \in All : \A x \in X : IsAncestor(G, x, d)})
  ELSE IF e.t = "forks" THEN {c \in All : Cardinality(Children(G, c) \cap All) >= 2}
  ELSE IF e.t = "latest" THEN LatestN(Eval(e.x, C), e.n, C.ts)
  ELSE IF e.t = "coalesce" THEN LET A == Eval(e.a, C) IN IF A # {} THEN A ELSE Eval(e.b, C)
  ELSE IF e.t = "not" THEN All \ Eval(e.x, C)
  ELSE IF e.t = "union" THEN Eval(e.a, C) \cup Eval(e.b, C)
  ELSE IF e.t = "inter" THEN Eval(e.a, C) \cap Eval(e.b, C)
  ELSE IF e.t = "diff" THEN Eval(e.a, C) \ Eval(e.b, C)
  ELSE IF e.t = "within" THEN Eval(e.x, [C EXCEPT !.vh = RsSeqToSet(e.vh), !.refd = Refd(e.x)])
  ELSE {-1}

(* ts: sequence of committer times of commits 1..n; the root is the oldest *)
Ctx(G, vh, e, ts) ==
  [G |-> G, vh |-> vh, refd |-> Refd(e), ts |-> [c \in DOMAIN G |-> IF c = 0 THEN 0 ELSE ts[c]]]
EvalTop(e, G, vh, ts) == Eval(e, Ctx(G, vh, e, ts))

---------------------------------------------------------------------------
(* CONTRACT: the listed result is the denoted set, without duplicates, and  *)
(* every commit comes before its ancestors.                                 *)
ResultOK(G, want, out) ==
  /\ RsSeqToSet(out) = want
  /\ RsNoDup(out)
  /\ \A i, j \in 1..Len(out) : i < j => ~IsAncestor(G, out[i], out[j])
=============================================================================
