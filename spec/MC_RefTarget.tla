--------------------------- MODULE MC_RefTarget ---------------------------
(* Design-level check of C12: the transcription of merge_ref_targets meets *)
(* RefMergeOK for every triple of targets with <= 3 terms over             *)
(* {Absent, c1, c2, c3}, on every ancestry relation three commits can have *)
(* (the five posets on three elements: chain, fork, merge = top half of a  *)
(* diamond, pair + separate root, three roots).  The domain is grown by    *)
(* Next so TLC's workers share it.  MaxConflicted bounds how many of the   *)
(* three inputs may be conflicted (quick tier: 1).                         *)
EXTENDS RefTarget, TLC

CONSTANTS MaxConflicted, Bug

Shapes == {"chain", "fork", "merge", "pair", "roots"}
ParOf(s) ==
  IF s = "chain" THEN <<<<>>, <<1>>, <<2>>>>
  ELSE IF s = "fork" THEN <<<<>>, <<1>>, <<1>>>>
  ELSE IF s = "merge" THEN <<<<>>, <<>>, <<1, 2>>>>
  ELSE IF s = "pair" THEN <<<<>>, <<1>>, <<>>>>
  ELSE <<<<>>, <<>>, <<>>>>
TV == {0, 1, 2, 3}

VARIABLE st      \* [s |-> shape, L, B, R |-> targets]

Init == \E s \in Shapes, l, b, r \in TV : st = [s |-> s, L |-> <<l>>, B |-> <<b>>, R |-> <<r>>]
NumConflicted(x) == Cardinality({k \in {"L", "B", "R"} : Len(x[k]) > 1})
Next ==
  /\ NumConflicted(st) < MaxConflicted
  /\ \E k \in {"L", "B", "R"}, a, b \in TV :
       /\ Len(st[k]) = 1
       /\ st' = [st EXCEPT ![k] = st[k] \o <<a, b>>]
Spec == Init /\ [][Next]_st

(* seeded design bugs (anti-vacuity) *)
NoAncestorCheck(par, m) ==      \* removes the first add of any pair with any remove
  IF Len(m) >= 3 /\ m[1] # Absent /\ m[3] # Absent THEN SwapRemove(m, 1, 1) ELSE m
BuggyMerge(par, L, B, R) ==
  IF Bug = "pick" THEN
       (IF TrivialCase(L, B, R) THEN MergeRefTargets(par, L, B, R)
        ELSE LET m == Simplify(Flatten(<<L, B, R>>)) IN
             IF TrivSeq(m) # <<>> THEN TrivSeq(m) ELSE NoAncestorCheck(par, m))
  ELSE IF Bug = "noff" THEN
       (IF TrivialCase(L, B, R) THEN MergeRefTargets(par, L, B, R)
        ELSE Simplify(Flatten(<<L, B, R>>)))
  ELSE IF Bug = "stale" THEN      \* unchanged side: returns the unchanged value
       (IF L = B THEN L ELSE MergeRefTargets(par, L, B, R))
  ELSE MergeRefTargets(par, L, B, R)

InvRefMerge ==
  LET par == ParOf(st.s) out == BuggyMerge(par, st.L, st.B, st.R) IN
    /\ IsTarget(par, out)
    /\ RefMergeOK(par, st.L, st.B, st.R, out)
    /\ (RefMergeVerdict(par, st.L, st.B, st.R, out) = "ok")
(* the result of the non-trivial loop is a fixpoint *)
InvFixpoint ==
  LET par == ParOf(st.s) out == MergeRefTargets(par, st.L, st.B, st.R) IN
    ~TrivialCase(st.L, st.B, st.R) => FindPair(par, out) = <<>>
=============================================================================
