SPECIFICATION Spec
CONSTANTS
  NumTerms = 3
  MaxLines = 1
  NFull = 4
  NOpen = 0
  UseCrlf = FALSE
  Bug = "none"
INVARIANTS InvEditScope
CHECK_DEADLOCK FALSE
