SPECIFICATION Spec
CONSTANTS
  Comps = {"a", "ab", "A"}
  MaxDepth = 3
  MaxNest = 3
  Bug = "none"
  Emit = TRUE
  Samples = 2000
  EmitMod = 1
INVARIANTS InvVisit EmitInv
CHECK_DEADLOCK FALSE
