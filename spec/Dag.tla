------------------------------- MODULE Dag -------------------------------
(* Commit graphs as pure operators (shared by every graph-shaped module).  *)
(* A graph is a function  par : Nodes -> Seq(Nodes)  (ordered parents, as  *)
(* jj stores them); Nodes is DOMAIN par.  Acyclic by construction in the   *)
(* generators: node ids are integers and every parent id is smaller than   *)
(* the child's ("topological numbering").                                  *)
EXTENDS Naturals, Sequences, FiniteSets

Nodes(par) == DOMAIN par
ParentSet(par, c) == {par[c][i] : i \in 1..Len(par[c])}
Children(par, c) == {d \in Nodes(par) : c \in ParentSet(par, d)}

RECURSIVE AncOf(_, _)
(* ancestors of the set S, inclusive *)
AncOf(par, S) ==
  LET P == UNION {ParentSet(par, c) : c \in S} IN
  IF P \subseteq S THEN S ELSE AncOf(par, S \cup P)
Ancestors(par, c) == AncOf(par, {c})
StrictAncestors(par, c) == AncOf(par, {c}) \ {c}
IsAncestor(par, a, d) == a \in Ancestors(par, d)          \* inclusive
DescOf(par, S) == {d \in Nodes(par) : AncOf(par, {d}) \cap S # {}}
Descendants(par, c) == DescOf(par, {c})

(* heads / roots of a set: members with no other member above / below *)
Heads(par, S) == {c \in S : ~\E d \in S : d # c /\ IsAncestor(par, c, d)}
Roots(par, S) == {c \in S : ~\E a \in S : a # c /\ IsAncestor(par, a, c)}

(* greatest common ancestors, as Index::common_ancestors(set1, set2) returns *)
(* them: heads of (ancestors of SOME a in A) intersected with (ancestors of  *)
(* SOME b in B).  For singleton sets this is the usual GCA set.              *)
CommonAncestors(par, A, B) == Heads(par, AncOf(par, A) \cap AncOf(par, B))
(* x::y *)
DagRange(par, X, Y) == DescOf(par, X) \cap AncOf(par, Y)
(* x..y *)
Range(par, X, Y) == AncOf(par, Y) \ AncOf(par, X)

RECURSIVE Generation(_, _)
Generation(par, c) ==
  IF Len(par[c]) = 0 THEN 0
  ELSE 1 + (LET gs == {Generation(par, p) : p \in ParentSet(par, c)}
            IN CHOOSE g \in gs : \A h \in gs : h <= g)

(* topological numbering: every parent is smaller than its child *)
TopoNumbered(par) == \A c \in Nodes(par) : \A p \in ParentSet(par, c) : p < c
=============================================================================
