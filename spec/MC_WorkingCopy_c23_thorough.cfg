SPECIFICATION Spec
CONSTANTS
  Paths <- StdPaths
  PathOrder <- StdPathOrder
  IgnoreVocab <- StdIgnoreVocab
  Bug = "none"
  MaxSteps = 5
  MaxEditRun = 3
  Acts = {"Write", "Chmod", "Delete", "FileToDir", "DirToFile", "Symlink", "Snapshot", "CheckOut"}
  EditPaths <- AllEditPaths
  Contents = {1, 2}
  SymTargets = {"f"}
  RootIgnore = {1, 2, 3, 4}
  DirIgnore = {5, 6}
  TreeIds = {7, 9}
  SparseIds = {}
  XP = "respect"
  Strict = "none"
  Emit = FALSE
INVARIANTS Inv_Contracts Inv_NoStrayMarker Inv_TreeWellFormed Inv_Outside
VIEW View
CHECK_DEADLOCK FALSE
