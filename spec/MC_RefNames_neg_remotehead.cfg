SPECIFICATION Spec
CONSTANTS
  MaxName = 2
  MaxRef = 4
  Bug = "remotehead"
  Emit = FALSE
INVARIANTS InvExportParse InvParseExport InvInjective EmitInv
CHECK_DEADLOCK FALSE
