SPECIFICATION Spec
CONSTANTS
  Paths <- StdPaths
  PathOrder <- StdPathOrder
  IgnoreVocab <- StdIgnoreVocab
  Bug = "co-keep-dirs"
  MaxSteps = 4
  MaxEditRun = 3
  Acts = {"CheckOut", "Snapshot", "SetSparse"}
  EditPaths <- AllEditPaths
  Contents = {1, 2}
  SymTargets = {"out"}
  RootIgnore = {}
  DirIgnore = {}
  TreeIds = {1, 3, 4, 6, 8, 9, 10, 14, 15, 16, 17, 18}
  SparseIds = {1, 2, 4}
  XP = "respect"
  Strict = "none"
  Emit = FALSE
INVARIANTS Inv_C24
VIEW View
CHECK_DEADLOCK FALSE
