SPECIFICATION Spec
CONSTANTS
  WS = {"w1", "w2"}
  Trees = {1}
  MaxCmds = 2
  MaxCommits = 5
  MaxOps = 4
  Kinds = {"mut", "us", "atop"}
  WithImm = FALSE
  AllowAbsentWs = FALSE
  Bug = "none"
CONSTRAINT Bound
INVARIANTS InvNoLoss InvAtOp InvImmutable InvOpsReachable InvWcState
CHECK_DEADLOCK FALSE
