--------------------------- MODULE IndexSegments ---------------------------
(* C18: the commit index (lib/src/default_index) answers exactly as the      *)
(* commit graph.                                                            *)
(*                                                                          *)
(* The ORACLE for every query is the Dag module (Ancestors, Heads,          *)
(* CommonAncestors, Generation).  This module adds                          *)
(*   - the vocabulary of the traces (graphs as parent sequences, root = 0), *)
(*   - CONTRACTS (...OK): what property C18 demands of the answers,         *)
(*   - a REFERENCE TRANSCRIPTION of how jj stores the graph: an index is a  *)
(*     stack of segment files; a transaction appends a mutable segment;     *)
(*     saving squashes (maybe_squash_with_ancestors); merging concurrent    *)
(*     operations walks both stacks (merge_in); queries run on positions    *)
(*     and generation numbers (is_ancestor_pos, heads_pos,                  *)
(*     common_ancestors_pos).  MC_IndexSegments is the state machine built  *)
(*     from these actions; TLC shows the design meets the contracts.        *)
EXTENDS Dag, Integers

Max(S) == CHOOSE x \in S : \A y \in S : y <= x
Min(S) == CHOOSE x \in S : \A y \in S : x <= y
SeqToSet(s) == {s[i] : i \in 1..Len(s)}
NoDup(s) == \A i, j \in 1..Len(s) : i # j => s[i] # s[j]

(* graph of a trace: pseq[c] = ordered parents of commit c (1..n); 0 = root *)
GraphOf(pseq) == [c \in 0..Len(pseq) |-> IF c = 0 THEN <<>> ELSE pseq[c]]

---------------------------------------------------------------------------
(* Memoised forms of the Dag operators for judging large graphs: the      *)
(* ancestor sets are computed once per graph (with Dag!Ancestors), heads,   *)
(* common ancestors and generations are read off them.  MC_IndexSegments    *)
(* proves (InvMemo) that they equal the Dag operators on every graph of the *)
(* exhaustive domain; the judge uses them so that a 60-commit history is    *)
(* judged in seconds.                                                       *)
AncMap(G) == [c \in DOMAIN G |-> Ancestors(G, c)]
AncOfM(am, S) == UNION {am[c] : c \in S}
HeadsM(am, S) == {c \in S : ~\E d \in S : d # c /\ c \in am[d]}
CommonAncestorsM(am, A, B) == HeadsM(am, AncOfM(am, A) \cap AncOfM(am, B))
(* generations bottom-up; needs the topological numbering of the traces;   *)
(* result is a sequence: GenSeq(G)[c + 1] = generation of c                 *)
RECURSIVE GenSeqUpTo(_, _)
GenSeqUpTo(G, c) ==
  IF c < 0 THEN <<>>
  ELSE LET prev == GenSeqUpTo(G, c - 1)
       IN Append(prev, IF Len(G[c]) = 0 THEN 0
                       ELSE 1 + Max({prev[p + 1] : p \in ParentSet(G, c)}))
GenSeq(G) == GenSeqUpTo(G, Max(DOMAIN G))

MemoAgrees(G) ==
  LET am == AncMap(G)
      gs == GenSeq(G)
      N == DOMAIN G
  IN /\ \A c \in N : gs[c + 1] = Generation(G, c)
     /\ \A S \in SUBSET N : HeadsM(am, S) = Heads(G, S) /\ AncOfM(am, S) = AncOf(G, S)
     /\ \A A, B \in {S \in SUBSET N : Cardinality(S) <= 2} :
          CommonAncestorsM(am, A, B) = CommonAncestors(G, A, B)

---------------------------------------------------------------------------
(* CONTRACTS (property C18).  G is the graph, K the set of indexed commits, *)
(* am = AncMap(G), gs = GenSeq(G) (the Dag oracle, memoised).               *)

(* the indexed set is closed under parents and contains everything visible *)
IndexedSetOK(am, K, vheads) ==
  /\ 0 \in K
  /\ AncOfM(am, K) = K
  /\ AncOfM(am, vheads) \subseteq K

IsAncestorOK(am, a, d, answer) == answer = (a \in am[d])
GenerationOK(gs, c, g) == g = gs[c + 1]
HeadsOK(am, cands, out) == NoDup(out) /\ SeqToSet(out) = HeadsM(am, SeqToSet(cands))
CommonAncestorsOK(am, a, b, out) ==
  NoDup(out) /\ SeqToSet(out) = CommonAncestorsM(am, SeqToSet(a), SeqToSet(b))
(* change id -> commits: every indexed commit of the change, flagged visible *)
(* iff it is an ancestor of a visible head.  out = sequence of <<c, vis>>.   *)
ChangeLookupOK(am, K, chgOf, vheads, ch, out) ==
  LET want == {c \in K : chgOf[c] = ch}
      vis == AncOfM(am, vheads)
  IN /\ NoDup(out)
     /\ {out[i][1] : i \in 1..Len(out)} = want
     /\ \A i \in 1..Len(out) : out[i][2] = (out[i][1] \in vis)

---------------------------------------------------------------------------
(* REFERENCE TRANSCRIPTION: segments, stacks, squash, merge.                *)
(* An entry: [id, ps (parent ids), pp (parent positions, 1-based global),   *)
(* gen, chg].  A stack: sequence (bottom..top) of segments, a segment is a  *)
(* sequence of entries.  While a transaction is open the top segment is the *)
(* mutable one.                                                             *)

RootEntry == [id |-> 0, ps |-> <<>>, pp |-> <<>>, gen |-> 0, chg |-> 0]
InitialStack == << <<RootEntry>> >>

RECURSIVE FlatUpTo(_, _)
FlatUpTo(segs, k) == IF k = 0 THEN <<>> ELSE FlatUpTo(segs, k - 1) \o segs[k]
Flat(segs) == FlatUpTo(segs, Len(segs))
NumCommits(segs) == Len(Flat(segs))
IdsOf(segs) == LET f == Flat(segs) IN {f[i].id : i \in 1..Len(f)}
Levels(segs) == [k \in 1..Len(segs) |-> Len(segs[k])]
PosOf(flat, id) == CHOOSE i \in 1..Len(flat) : flat[i].id = id

(* MutableCommitIndexSegment::add_commit_data.  genRule = "ok" | "local"    *)
(* ("local": a seeded bug that only sees parents of the segment being       *)
(* written when it recomputes the generation number).                       *)
AddCommit(segs, id, ps, ch, genRule) ==
  LET flat == Flat(segs)
      below == NumCommits(SubSeq(segs, 1, Len(segs) - 1))
  IN IF \E i \in 1..Len(flat) : flat[i].id = id THEN segs
     ELSE LET pp == [k \in 1..Len(ps) |-> PosOf(flat, ps[k])]
              seen == IF genRule = "ok" THEN 1..Len(ps)
                      ELSE {k \in 1..Len(ps) : pp[k] > below}
              g == IF seen = {} THEN 0 ELSE 1 + Max({flat[pp[k]].gen : k \in seen})
              e == [id |-> id, ps |-> ps, pp |-> pp, gen |-> g, chg |-> ch]
          IN [segs EXCEPT ![Len(segs)] = Append(@, e)]

RECURSIVE AddEntries(_, _, _, _)
AddEntries(segs, es, i, genRule) ==
  IF i > Len(es) THEN segs
  ELSE AddEntries(AddCommit(segs, es[i].id, es[i].ps, es[i].chg, genRule), es, i + 1, genRule)

(* maybe_squash_with_ancestors: walking down from the new segment, absorb   *)
(* every parent file that has less than twice as many commits as what has   *)
(* been collected so far.  Returns how many bottom files are kept.          *)
RECURSIVE SquashBase(_, _, _)
SquashBase(segs, i, numNew) ==
  IF i = 0 THEN 0
  ELSE IF 2 * numNew < Len(segs[i]) THEN i
  ELSE SquashBase(segs, i - 1, numNew + Len(segs[i]))

(* save: squash, re-adding the absorbed commits one by one, and drop an     *)
(* empty new segment (save_in returns the parent file).                     *)
Save(segs, genRule) ==
  LET n == Len(segs)
      k == SquashBase(segs, n - 1, Len(segs[n]))
  IN IF k = n - 1
     THEN (IF segs[n] = <<>> THEN SubSeq(segs, 1, n - 1) ELSE segs)
     ELSE LET moved == FlatUpTo([j \in 1..(n - k) |-> segs[k + j]], n - k)
          IN AddEntries(SubSeq(segs, 1, k) \o << <<>> >>, moved, 1, genRule)

SaveLevels(levels, added) ==     \* the same rule on segment sizes only
  LET segs == levels \o <<added>>
      n == Len(segs)
      RECURSIVE B(_, _)
      B(i, numNew) == IF i = 0 THEN 0 ELSE IF 2 * numNew < segs[i] THEN i ELSE B(i - 1, numNew + segs[i])
      k == B(n - 1, added)
      RECURSIVE Sum(_)
      Sum(j) == IF j > n THEN 0 ELSE segs[j] + Sum(j + 1)
  IN IF k = n - 1 THEN (IF added = 0 THEN levels ELSE segs)
     ELSE SubSeq(segs, 1, k) \o <<Sum(k + 1)>>

(* MutableCommitIndexSegment::merge_in: merge-join of the two file chains   *)
(* by total commit count (descending), stop at the first common file, add   *)
(* the other side's files seen so far, oldest first.  A file is identified  *)
(* by its content and its whole chain of parents (content addressing).      *)
(* stopRule = "ok" | "count" ("count": seeded bug, equal counts are taken   *)
(* for the same file).                                                      *)
RECURSIVE MergeJoin(_, _, _, _, _)
MergeJoin(own, oth, i, j, stopRule) ==
  IF j = 0 THEN <<>>
  ELSE IF i = 0 THEN <<j>> \o MergeJoin(own, oth, 0, j - 1, stopRule)
  ELSE LET a == NumCommits(SubSeq(own, 1, i))
           b == NumCommits(SubSeq(oth, 1, j))
       IN IF a > b THEN MergeJoin(own, oth, i - 1, j, stopRule)
          ELSE IF a < b THEN <<j>> \o MergeJoin(own, oth, i, j - 1, stopRule)
          ELSE IF stopRule = "count" \/ SubSeq(own, 1, i) = SubSeq(oth, 1, j) THEN <<>>
          ELSE <<j>> \o MergeJoin(own, oth, i - 1, j - 1, stopRule)

RECURSIVE AddFiles(_, _, _, _)
AddFiles(segs, oth, files, k) ==        \* files lists indexes top..bottom; add bottom first
  IF k = 0 THEN segs
  ELSE AddFiles(AddEntries(segs, oth[files[k]], 1, "ok"), oth, files, k - 1)

MergeIn(segs, oth, stopRule) ==         \* segs has its mutable segment on top
  LET files == MergeJoin(segs, oth, Len(segs) - 1, Len(oth), stopRule)
  IN AddFiles(segs, oth, files, Len(files))

---------------------------------------------------------------------------
(* REFERENCE TRANSCRIPTION of the queries on positions and generations.     *)
PP(flat, p) == SeqToSet(flat[p].pp)

(* is_ancestor_pos: DFS from the descendant, pruned by position and by the  *)
(* ancestor's generation number                                             *)
IsAncestorRef(flat, ap, dp) ==
  LET ag == flat[ap].gen
      RECURSIVE W(_, _)
      W(work, visited) ==
        IF work = {} THEN FALSE
        ELSE LET p == Max(work)
                 rest == work \ {p}
             IN IF p < ap THEN W(rest, visited)
                ELSE IF p = ap THEN TRUE
                ELSE IF p \in visited THEN W(rest, visited)
                ELSE IF flat[p].gen <= ag THEN W(rest, visited \cup {p})
                ELSE W(rest \cup PP(flat, p), visited \cup {p})
  IN W({dp}, {})

(* heads_pos: candidates by descending position; a heap of ancestors of the *)
(* heads found so far, pruned at the minimum generation of the candidates   *)
(* cutoff = "min" | "max" ("max": seeded bug)                               *)
HeadsRef(flat, cands, cutoff) ==
  IF cands = {} THEN {}
  ELSE
  LET gens == {flat[c].gen : c \in cands}
      minGen == IF cutoff = "min" THEN Min(gens) ELSE Max(gens)
      RECURSIVE Drain(_, _)
      Drain(ps, c) ==
        IF ps = {} \/ Max(ps) < c THEN [ps |-> ps, hit |-> FALSE]
        ELSE LET p == Max(ps)
                 ps2 == IF flat[p].gen <= minGen THEN ps \ {p} ELSE (ps \ {p}) \cup PP(flat, p)
             IN IF p = c THEN [ps |-> ps2, hit |-> TRUE] ELSE Drain(ps2, c)
      RECURSIVE H(_, _, _)
      H(cs, ps, hs) ==
        IF cs = {} THEN hs
        ELSE LET c == Max(cs)
                 d == Drain(ps, c)
             IN IF d.hit THEN H(cs \ {c}, d.ps, hs)
                ELSE H(cs \ {c}, d.ps \cup PP(flat, c), hs \cup {c})
  IN H(cands, {}, {})

(* common_ancestors_pos: two frontiers walked down in step, then heads_pos  *)
CommonAncestorsRef(flat, s1, s2) ==
  LET RECURSIVE C(_, _, _)
      C(i1, i2, res) ==
        IF i1 = {} \/ i2 = {} THEN res
        ELSE LET p1 == Max(i1)
                 p2 == Max(i2)
             IN IF p1 > p2 THEN C((i1 \ {p1}) \cup PP(flat, p1), i2, res)
                ELSE IF p1 < p2 THEN C(i1, (i2 \ {p2}) \cup PP(flat, p2), res)
                ELSE C(i1 \ {p1}, i2 \ {p2}, res \cup {p1})
  IN HeadsRef(flat, C(s1, s2, {}), "min")

---------------------------------------------------------------------------
(* Design-level properties of an index state (used by MC_IndexSegments).    *)
WellFormed(G, segs) ==
  LET flat == Flat(segs) IN
  /\ \A i, j \in 1..Len(flat) : i # j => flat[i].id # flat[j].id
  /\ \A i \in 1..Len(flat) :
       LET e == flat[i] IN
       /\ e.ps = G[e.id]
       /\ Len(e.pp) = Len(e.ps)
       /\ \A k \in 1..Len(e.pp) : e.pp[k] < i /\ flat[e.pp[k]].id = e.ps[k]
       /\ e.gen = Generation(G, e.id)
  /\ AncOf(G, IdsOf(segs)) = IdsOf(segs)

(* every file has more than twice the commits of the file above it *)
Geometric(segs) == \A k \in 1..(Len(segs) - 1) : 2 * Len(segs[k + 1]) < Len(segs[k])

(* the oracle side uses the memoised Dag operators (equal to Dag's: InvMemo) *)
QueriesAgree(G, segs, cutoff) ==
  LET flat == Flat(segs)
      K == IdsOf(segs)
      am == AncMap(G)
      pos == [c \in K |-> PosOf(flat, c)]
      IdSet(ps) == {flat[p].id : p \in ps}
      Small == {S \in SUBSET K : S # {} /\ Cardinality(S) <= (IF Cardinality(K) <= 5 THEN 2 ELSE 1)}
  IN /\ \A a, d \in K : IsAncestorRef(flat, pos[a], pos[d]) = (a \in am[d])
     /\ \A S \in SUBSET K : IdSet(HeadsRef(flat, {pos[c] : c \in S}, cutoff)) = HeadsM(am, S)
     /\ \A A, B \in Small :
          IdSet(CommonAncestorsRef(flat, {pos[c] : c \in A}, {pos[c] : c \in B})) = CommonAncestorsM(am, A, B)
=============================================================================
