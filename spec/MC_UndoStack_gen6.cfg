SPECIFICATION Spec
CONSTANTS
  MaxLen = 6
  InitOps = 3
  WithRestore = FALSE
  Bug = "none"
  Emit = TRUE
INVARIANTS EmitInv
CHECK_DEADLOCK FALSE
