---------------------------- MODULE MC_UndoStack ----------------------------
(* Design-level check and S->I generator for C41.                           *)
(*  - InvRefines: the description-based op-log algorithm (ImplStep) refines *)
(*    the editor-style stack (AbsStep) after every command word over the    *)
(*    alphabet, up to MaxLen commands, starting from a log of InitOps       *)
(*    operations (root, workspace init, one setup operation).               *)
(*  - EmitInv prints every maximal word with the expected result of each    *)
(*    step; checks/c41.py replays them through the real jj CLI.             *)
EXTENDS UndoStack, TLC, Json

CONSTANTS MaxLen, InitOps, WithRestore, Bug, Emit

VARIABLES st, log, hist

Cmds == {[a |-> "op"], [a |-> "undo"], [a |-> "redo"]}
        \cup (IF WithRestore
              THEN {[a |-> "revert"]} \cup {[a |-> "restore", k |-> i] : i \in 1..Len(log)}
              ELSE {})

Init == /\ st = AbsInit(InitOps)
        /\ log = ImplInit(InitOps)
        /\ hist = <<>>

Do(c) ==
  LET log2 == ImplStep(log, c, Bug)
      st2 == AbsStep(st, c, Views(log))
      ok == ImplOk(log, c, Bug)
  IN /\ st' = st2
     /\ log' = log2
     /\ hist' = Append(hist, [a |-> c.a, k |-> (IF c.a = "restore" THEN c.k ELSE 0),
                              ok |-> AbsOk(st, c), cur |-> st2.cur, n |-> st2.n,
                              kind |-> (IF Len(log2) > Len(log) THEN log2[Len(log2)].kind ELSE "none"),
                              tgt |-> (IF Len(log2) > Len(log) THEN log2[Len(log2)].tgt ELSE 0)])

Next == /\ Len(hist) < MaxLen
        /\ \E c \in Cmds : Do(c)

Spec == Init /\ [][Next]_<<st, log, hist>>

InvRefines == /\ Refines(st, log)
              /\ \A c \in Cmds : AbsOk(st, c) = ImplOk(log, c, Bug)
(* adjacent views of the stack differ, so undo and redo always change the view *)
InvAdjacentDiffer ==
  LET all == st.past \o <<st.cur>> \o st.future IN \A i \in 1..(Len(all) - 1) : all[i] # all[i + 1]
(* the stack never loses a view: everything in past/future is a view of the log *)
InvStackInLog == \A i \in 1..Len(st.past) : \E j \in 1..Len(log) : log[j].view = st.past[i]
(* undo directly after a successful redo, and redo directly after a successful undo, cancel *)
InvUndoRedoInverse ==
  /\ AbsCanUndo(st) => AbsStep(AbsStep(st, [a |-> "undo"], Views(log)), [a |-> "redo"], Views(log)).cur = st.cur
  /\ AbsCanRedo(st) => AbsStep(AbsStep(st, [a |-> "redo"], Views(log)), [a |-> "undo"], Views(log)).cur = st.cur

EmitInv == (Emit /\ Len(hist) = MaxLen) => PrintT(<<"REPLAY", ToJson(hist)>>)
=============================================================================
