----------------------------- MODULE Trace_Quote -----------------------------
(* Judge for C35: the real escape_string / format_string / format_symbol /  *)
(* format_remote_symbol outputs parsed back by the real revset, fileset and *)
(* template parsers, on the TLC-generated strings of MC_Quote.              *)
EXTENDS Quote, Json, IOUtils, TLC

Rec == ndJsonDeserialize(IOEnv.TRACE)

VARIABLE l

Verdict(r) ==
  IF r.op = "str" THEN
       IF ~StringRoundTripOK(r.s, r.revset) THEN "StringRoundTrip:revset"
       ELSE IF FilesetObservable(r.s) /\ ~StringRoundTripOK(r.s, r.fileset) THEN "StringRoundTrip:fileset"
       ELSE IF ~StringRoundTripOK(r.s, r.tpl) THEN "StringRoundTrip:template"
       ELSE IF ~SymbolRoundTripOK(r.s, r.sym) THEN "SymbolRoundTrip:parse_symbol"
       ELSE IF ~SymbolRoundTripOK(r.s, r.symexpr) THEN "SymbolRoundTrip:expression"
       ELSE "ok"
  ELSE IF r.op = "pair" THEN
       IF ~RemoteSymbolRoundTripOK(r.n, r.r, r.back) THEN "RemoteSymbolRoundTrip" ELSE "ok"
  ELSE IF r.op = "panic" THEN "Panic"
  ELSE "harness:unknown-op"

Diverges(r) ==
  IF r.op = "str" THEN r.escaped # Escape(r.s) \/ r.symtext # FormatSymbol(r.s)
  ELSE IF r.op = "pair" THEN r.text # FormatSymbol(r.n) \o <<"at">> \o FormatSymbol(r.r)
  ELSE FALSE

Init == l = 1
Next ==
  \/ /\ l <= Len(Rec)
     /\ LET v == Verdict(Rec[l]) IN
          /\ (IF v = "ok" THEN TRUE ELSE PrintT(<<"BAD", l, v>>))
          /\ (IF Diverges(Rec[l]) THEN PrintT(<<"DIVERGES", l>>) ELSE TRUE)
     /\ l' = l + 1
  \/ /\ l = Len(Rec) + 1
     /\ PrintT(<<"JUDGED", Len(Rec)>>)
     /\ l' = l + 1
Spec == Init /\ [][Next]_l
=============================================================================
