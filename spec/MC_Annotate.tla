--------------------------- MODULE MC_Annotate ---------------------------
(* C38 design-level check and S->I generator: every valid unique-token     *)
(* history on up to MaxCommits commits over MaxTokens tokens (built commit *)
(* by commit), every start commit and domain; the ideal walk of Annotate   *)
(* is run and must meet the contract and equal Blame.                      *)
EXTENDS Annotate, TLC, Json

CONSTANTS MaxCommits, MaxTokens, SubDomains, OrderedParents, Bug, Emit, RequireMerge

VARIABLES hist, phase        \* the history under construction; "build" | "walk"
vars == <<hist, phase, h, cur, pend, attr>>

N == Len(hist.par)
T == 1..MaxTokens
ParentChoices == {<<>>} \cup {<<a>> : a \in 1..N} \cup {s \in (1..N) \X (1..N) : IF OrderedParents THEN s[1] # s[2] ELSE s[1] < s[2]}

Init == /\ hist = [par |-> <<>>, file |-> <<>>] /\ phase = "build"
        /\ h = [par |-> <<>>, file |-> <<>>, s |-> 0, dom |-> {}] /\ cur = 0 /\ pend = <<>> /\ attr = <<>>

AddCommit ==
  /\ phase = "build" /\ N < MaxCommits
  /\ \E ps \in ParentChoices, f \in SUBSET T :
        LET H2 == [par |-> Append(hist.par, ps), file |-> Append(hist.file, f)] IN
        /\ ValidHistory(H2)
        /\ hist' = H2
  /\ UNCHANGED <<phase, h, cur, pend, attr>>

DomainsOf(H, s) ==
  {DOMAIN H.par} \cup
  (IF SubDomains THEN {Range(H.par, {g}, {s}) : g \in DOMAIN H.par} \ {{}} ELSE {})

HasMerge(H) == \E c \in DOMAIN H.par : Len(H.par[c]) >= 2

Start ==
  /\ phase = "build" /\ N >= 1 /\ (RequireMerge => HasMerge(hist))
  /\ \E s \in {N} : \E dom \in DomainsOf(hist, s) :        \* the newest commit; older starts are smaller histories
        /\ s \in dom
        /\ AStart([par |-> hist.par, file |-> hist.file, s |-> s, dom |-> dom])
  /\ phase' = "walk" /\ UNCHANGED hist

(* seeded design bugs in the walk *)
BugProcess ==
  IF Bug = "firstparent"          \* only the first parent is consulted
  THEN /\ cur >= 1
       /\ LET c == cur  ps == IF Len(h.par[c]) = 0 THEN <<>> ELSE <<h.par[c][1]>>
              P == pend[c]
              mine == IF Len(ps) = 0 THEN {} ELSE P \cap h.file[ps[1]]
          IN /\ pend' = [d \in DOMAIN pend |-> IF d = c THEN {} ELSE IF Len(ps) = 1 /\ d = ps[1] THEN pend[d] \cup mine ELSE pend[d]]
             /\ attr' = [t \in DOMAIN attr |-> IF t \in P \ mine THEN [c |-> c, ok |-> TRUE] ELSE attr[t]]
       /\ cur' = cur - 1 /\ UNCHANGED h
  ELSE ProcessCommit

Step == phase = "walk" /\ BugProcess /\ UNCHANGED <<hist, phase>>

Next == AddCommit \/ Start \/ Step
Spec == Init /\ [][Next]_vars

Finished == phase = "walk" /\ cur = 0
OutOfWalk == LET ts == AscSeq(DOMAIN attr) IN [i \in 1..Len(ts) |-> [t |-> ts[i], c |-> attr[ts[i]].c, ok |-> attr[ts[i]].ok]]

InvWalkMeetsContract ==
  Finished => AnnotateVerdict([par |-> h.par, file |-> h.file], h.s, h.dom,
                              IF Bug = "droplast" /\ Len(OutOfWalk) > 0 THEN SubSeq(OutOfWalk, 1, Len(OutOfWalk) - 1) ELSE OutOfWalk) = "ok"
(* everything is attributed, and to Blame when Blame lies in the domain *)
InvWalkIsBlame ==
  Finished => \A t \in DOMAIN attr :
     LET b == Blame([par |-> h.par, file |-> h.file], t) IN
     /\ attr[t].c # 0
     /\ (b \in h.dom) => (attr[t].ok /\ attr[t].c = b)

SetSeq(S) == AscSeq(S)
EmitInv ==
  (Emit /\ phase = "walk" /\ cur = h.s) =>
     PrintT(<<"REPLAY", ToJson([par |-> h.par, file |-> [c \in 1..Len(h.file) |-> SetSeq(h.file[c])],
                                 s |-> h.s, dom |-> SetSeq(h.dom)])>>)
=============================================================================
