SPECIFICATION Spec
CONSTANTS
  NB = 2
  Par <- MC_Par3
  OtherOnly = {3}
  MaxSteps = 3
  MaxTerms = 5
  Emit = "all"
  FillChoices <- MC_Fill0
  Bug = "none"
CONSTRAINT Small
VIEW View
INVARIANTS InvStep InvNoLostUpdate
CHECK_DEADLOCK FALSE
