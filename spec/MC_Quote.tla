------------------------------ MODULE MC_Quote ------------------------------
(* Design-level check and S->I generator for C35: every string of at most  *)
(* MaxLen character tokens (grown by Next), and every (name, remote) pair  *)
(* of at most MaxPair tokens each over PairChars.                          *)
EXTENDS Quote, TLC, Json

CONSTANTS MaxLen, MaxPair, Bug, Emit

(* strings longer than 3 are built over the classes that interact: letters,  *)
(* the identifier separators, the quoting characters, one named and one    *)
(* hex escape, @ and space                                                 *)
LongChars == {"a", "n", "uid", "dash", "dot", "plus", "dq", "bs", "nl", "esc", "at", "sp"}
PairChars == {"a", "dash", "at", "dq", "bs", "sp"}

VARIABLE st      \* [t |-> "str", s |-> string] | [t |-> "pair", n |-> name, r |-> remote]

Init == \/ st = [t |-> "str", s |-> <<>>]
        \/ \E c, d \in PairChars : st = [t |-> "pair", n |-> <<c>>, r |-> <<d>>]
Next == \/ /\ st.t = "str" /\ Len(st.s) < MaxLen
           /\ \E c \in Chars :
                /\ Len(st.s) >= 3 => (c \in LongChars /\ \A i \in 1..Len(st.s) : st.s[i] \in LongChars)
                /\ st' = [st EXCEPT !.s = Append(st.s, c)]
        \/ /\ st.t = "pair" /\ Len(st.n) < MaxPair
           /\ \E c \in PairChars : st' = [st EXCEPT !.n = Append(st.n, c)]
        \/ /\ st.t = "pair" /\ Len(st.r) < MaxPair
           /\ \E c \in PairChars : st' = [st EXCEPT !.r = Append(st.r, c)]
Spec == Init /\ [][Next]_st

(* seeded design bugs *)
RECURSIVE BugEscape(_)
BugEscape(s) ==           \* the backslash itself is not escaped
  IF s = <<>> THEN <<>>
  ELSE (IF s[1] = "bs" THEN <<"bs">> ELSE EscapeChar(s[1])) \o BugEscape(SubSeq(s, 2, Len(s)))
BugIsIdentifier(s) ==     \* any run of identifier characters and separators
  s # <<>> /\ \A i \in 1..Len(s) : s[i] \in IdChar \cup {"dot", "plus", "dash"}
TheEscape(s) == IF Bug = "nobs" THEN BugEscape(s) ELSE Escape(s)
TheNeedsQuote(s) == IF Bug = "looseident" THEN ~BugIsIdentifier(s) ELSE NeedsQuote(s)

(* the revset `symbol` rule on a formatted symbol text: an identifier is   *)
(* itself, otherwise the text must be a well-formed string literal         *)
ParseSymbolText(t) ==
  IF IsIdentifier(t) THEN t
  ELSE IF Len(t) >= 2 /\ t[1] = "dq" /\ t[Len(t)] = "dq" THEN Unescape(SubSeq(t, 2, Len(t) - 1))
  ELSE Invalid
TheFormatSymbol(s) == IF TheNeedsQuote(s) THEN <<"dq">> \o TheEscape(s) \o <<"dq">> ELSE s

InvRoundTrip == st.t = "str" => Unescape(TheEscape(st.s)) = st.s
InvSymbol == (st.t = "str" /\ st.s # <<>>) => ParseSymbolText(TheFormatSymbol(st.s)) = st.s
(* in name@remote the two formatted parts are separated by an "at" that    *)
(* cannot be confused with one inside a part: an unquoted part has none    *)
InvPair == st.t = "pair" =>
  /\ ParseSymbolText(TheFormatSymbol(st.n)) = st.n
  /\ ParseSymbolText(TheFormatSymbol(st.r)) = st.r
  /\ (~TheNeedsQuote(st.n) => \A i \in 1..Len(st.n) : st.n[i] # "at")
  /\ (~TheNeedsQuote(st.r) => \A i \in 1..Len(st.r) : st.r[i] # "at")

EmitInv == Emit => PrintT(<<"CASE", ToJson(st)>>)
=============================================================================
