SPECIFICATION Spec
CONSTANTS
  MaxName = 2
  MaxRef = 4
  Bug = "slashremote"
  Emit = FALSE
INVARIANTS InvExportParse InvParseExport InvInjective EmitInv
CHECK_DEADLOCK FALSE
