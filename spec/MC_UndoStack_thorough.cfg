SPECIFICATION Spec
CONSTANTS
  MaxLen = 9
  InitOps = 3
  WithRestore = FALSE
  Bug = "none"
  Emit = FALSE
INVARIANTS InvRefines InvStackInLog InvUndoRedoInverse InvAdjacentDiffer
CHECK_DEADLOCK FALSE
