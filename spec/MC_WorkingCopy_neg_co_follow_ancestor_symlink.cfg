SPECIFICATION Spec
CONSTANTS
  Paths <- StdPaths
  PathOrder <- StdPathOrder
  IgnoreVocab <- StdIgnoreVocab
  Bug = "co-follow-ancestor-symlink"
  MaxSteps = 5
  MaxEditRun = 2
  Acts = {"DirToSymlink", "Symlink", "FileToDir", "CheckOut"}
  EditPaths <- DirPaths
  Contents = {1, 2}
  SymTargets = {"out", "out/x"}
  RootIgnore = {}
  DirIgnore = {}
  TreeIds = {1, 3, 12, 13}
  SparseIds = {}
  XP = "respect"
  Strict = "none"
  Emit = FALSE
INVARIANTS Inv_C25
VIEW View
CHECK_DEADLOCK FALSE
