SPECIFICATION Spec
CONSTANTS
  MaxCommits = 3
  MaxTokens = 2
  SubDomains = FALSE
  OrderedParents = FALSE
  Bug = "firstparent"
  Emit = FALSE
  RequireMerge = FALSE
INVARIANTS InvWalkMeetsContract InvWalkIsBlame EmitInv
CHECK_DEADLOCK FALSE
