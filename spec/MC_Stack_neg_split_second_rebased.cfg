SPECIFICATION Spec
CONSTANTS
  Paths = {"a", "b"}
  Contents = {2}
  MaxChange = 2
  Bug = "split_second_rebased"
  Emit = FALSE
  Directed = FALSE
  Shapes <- ShapesQuick
INVARIANTS InvLaws
CHECK_DEADLOCK FALSE
