SPECIFICATION Spec
CONSTANTS
  MaxNodes = 4
  Shape = "any"
  SubRanges = FALSE
  WithSkips = TRUE
  Engine = "any"
  ExcludeFinding = TRUE
  Bug = "none"
  Emit = TRUE
INVARIANTS InvNoRepeat InvVerdict InvProgress EmitInv
CHECK_DEADLOCK FALSE
