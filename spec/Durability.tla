----------------------------- MODULE Durability -----------------------------
(* Crash safety of one jj command as a state machine over the DURABLE       *)
(* state: object files, the op-heads directory, working-copy files and the  *)
(* two working-copy state files.  A command is the sequence of durable      *)
(* effects the code performs (each announced by a verif_hooks::point at     *)
(* the real call site); a crash may happen before any effect, i.e. in any   *)
(* state of this machine.                                                   *)
(*                                                                          *)
(* The ORDERING guards of the actions are the content of the specification: *)
(*   G2 a head is added only for an operation whose object AND whose view   *)
(*      object are durable (the order in which the two objects themselves   *)
(*      are written does not matter: they are unreferenced until then)      *)
(*   G3 a head is removed only when a strict descendant is among the heads  *)
(*   G4 working-copy files are touched only when every operation written    *)
(*      by this command has been published                                  *)
(*   G5 tree_state is saved after the last file write of an update, and     *)
(*      the checkout file (which names the operation) after tree_state      *)
(* They make the crash invariants below hold in every state; trace          *)
(* validation checks that the real effect sequences respect them.           *)
EXTENDS Naturals, Sequences, FiniteSets

CONSTANTS Guards         \* the ordering guards in force (all of G2..G5 in the real spec;
                         \* negative configs drop one to show the invariants depend on it)

VARIABLES par,           \* function: operation id -> set of parent ids (all operations of the case)
          viewOf,        \* function: operation id -> id of its view object
          objs,          \* set of durable operation ids (object file complete)
          views,         \* set of durable view ids
          heads,         \* op-heads directory
          startHeads,    \* heads when the command started
          written,       \* operations persisted by this command
          wcPhase,       \* "clean" | "updating" | "treestate"
          wcStaleOk      \* ghost: a stale / partially updated working copy is a legal outcome now

vars == <<par, viewOf, objs, views, heads, startHeads, written, wcPhase, wcStaleOk>>

RECURSIVE Anc(_)
Anc(S) == LET P == UNION {par[x] : x \in S \cap DOMAIN par} IN
          IF P \subseteq S THEN S ELSE Anc(S \cup P)
StrictAnc(x) == Anc({x}) \ {x}
HeadsOf(S) == {x \in S : ~\E y \in S : y # x /\ x \in Anc({y})}

PersistView(v) ==
  /\ views' = views \cup {v}
  /\ UNCHANGED <<par, viewOf, objs, heads, startHeads, written, wcPhase, wcStaleOk>>

PersistOp(o) ==
  /\ objs' = objs \cup {o} /\ written' = written \cup {o}
  /\ UNCHANGED <<par, viewOf, views, heads, startHeads, wcPhase, wcStaleOk>>

PersistOther == UNCHANGED vars        \* store / index objects: content-addressed, no ordering claim

HeadAdd(o) ==
  /\ ("G2" \in Guards => o \in objs /\ o \in DOMAIN viewOf /\ viewOf[o] \in views)   \* G2
  /\ heads' = heads \cup {o}
  \* once a new operation is published the working copy may legitimately be behind it
  /\ wcStaleOk' = TRUE
  /\ UNCHANGED <<par, viewOf, objs, views, startHeads, written, wcPhase>>

HeadRemove(o) ==
  /\ ("G3" \in Guards => (o \in heads => \E h \in heads : o \in StrictAnc(h))) \* G3
  /\ heads' = heads \ {o}
  /\ UNCHANGED <<par, viewOf, objs, views, startHeads, written, wcPhase, wcStaleOk>>

WcTouch ==
  /\ ("G4" \in Guards => written \subseteq Anc(heads))    \* G4
  /\ ("G5" \in Guards => wcPhase \in {"clean", "updating"}) \* G5: not between tree_state and checkout
  /\ wcPhase' = "updating"
  /\ wcStaleOk' = TRUE
  /\ UNCHANGED <<par, viewOf, objs, views, heads, startHeads, written>>

SaveTreeState ==
  /\ wcPhase' = IF wcPhase = "updating" THEN "treestate" ELSE wcPhase
  /\ UNCHANGED <<par, viewOf, objs, views, heads, startHeads, written, wcStaleOk>>

SaveCheckout ==
  /\ ("G5" \in Guards => wcPhase # "updating")            \* G5
  /\ wcPhase' = "clean"
  \* the working copy now records the operation it is at; it is fresh again
  \* unless further operations get published later
  /\ wcStaleOk' = FALSE
  /\ UNCHANGED <<par, viewOf, objs, views, heads, startHeads, written>>

----------------------------------------------------------------------------
(* crash invariants: hold in every state, i.e. whatever the kill point *)

Loadable == heads # {} /\ heads \subseteq objs /\ \A h \in heads : h \in DOMAIN viewOf /\ viewOf[h] \in views
NoCommittedOpLost == \A o \in startHeads : \E h \in heads : o \in Anc({h})
(* the state is before or after (an operation of) the command, never a fork *)
BeforeOrAfter == Cardinality(HeadsOf(heads)) = 1
               /\ \A h \in HeadsOf(heads) : h \in startHeads \/ h \in written
(* files are only ever half-updated while recovery is possible *)
WcRecoverable == wcPhase # "clean" => wcStaleOk
CrashSafe == Loadable /\ NoCommittedOpLost /\ BeforeOrAfter /\ WcRecoverable
=============================================================================
