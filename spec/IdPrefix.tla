------------------------------ MODULE IdPrefix ------------------------------
(* C20: shortest unique id prefixes are unique, minimal and resolvable.     *)
(* Ids (commit ids, change ids) are sequences of hex digits (0..15), all of *)
(* one length within a set.                                                 *)
EXTENDS Integers, Sequences, FiniteSets

IpMax(S) == CHOOSE x \in S : \A y \in S : y <= x
IsPrefixOf(p, id) == Len(p) <= Len(id) /\ \A i \in 1..Len(p) : p[i] = id[i]
Prefix(id, n) == SubSeq(id, 1, n)
Matches(p, S) == {id \in S : IsPrefixOf(p, id)}

(* resolution of a prefix in a set: <<"none">>, <<"amb">> or <<"single", id>> *)
Resolve(p, S) ==
  LET m == Matches(p, S) IN
  IF m = {} THEN <<"none">>
  ELSE IF Cardinality(m) = 1 THEN <<"single", CHOOSE id \in m : TRUE>>
  ELSE <<"amb">>

(* two-level rule of id_prefix.rs: a match inside the disambiguation set D  *)
(* wins (one match: that id; several: ambiguous); no match there falls back *)
(* to the whole set S.  hasD = FALSE: no disambiguation set.                *)
Resolve2(p, hasD, D, S) ==
  IF hasD /\ Matches(p, D) # {} THEN Resolve(p, D) ELSE Resolve(p, S)

---------------------------------------------------------------------------
(* CONTRACTS *)
(* n is the shortest prefix length of id within S: unique and minimal.      *)
(* (S = {id}: n = 0 is the only id's empty prefix.)                         *)
ShortestOK(id, n, S) ==
  /\ n \in 0..Len(id)
  /\ Matches(Prefix(id, n), S) = {id}
  /\ \A m \in 0..(n - 1) : Matches(Prefix(id, m), S) # {id}
(* for an id that is not in S: the shortest prefix that matches nothing *)
ShortestAbsentOK(id, n, S) ==
  /\ n \in 0..Len(id)
  /\ Matches(Prefix(id, n), S) = {}
  /\ \A m \in 0..(n - 1) : Matches(Prefix(id, m), S) # {}
(* with a disambiguation set and names R (bookmarks/tags spelled like a     *)
(* prefix) that take precedence: n is the shortest usable prefix, at least  *)
(* one digit                                                                *)
Usable(id, m, hasD, D, S, R) ==
  /\ Resolve2(Prefix(id, m), hasD, D, S) = <<"single", id>>
  /\ (Prefix(id, m) \notin R \/ m = Len(id))
ShortestUsableOK(id, n, hasD, D, S, R) ==
  /\ n \in 1..Len(id)
  /\ Usable(id, n, hasD, D, S, R)
  /\ \A m \in 1..(n - 1) : ~Usable(id, m, hasD, D, S, R)

---------------------------------------------------------------------------
(* REFERENCE TRANSCRIPTION of composite.rs: the ids are spread over index   *)
(* segments; each segment yields the lexicographic neighbours of id; the    *)
(* closest ones overall decide: 1 + the longest common prefix with them.    *)
RECURSIVE CommonLenFrom(_, _, _)
CommonLenFrom(a, b, i) ==
  IF i > Len(a) \/ i > Len(b) \/ a[i] # b[i] THEN i - 1 ELSE CommonLenFrom(a, b, i + 1)
CommonLen(a, b) == CommonLenFrom(a, b, 1)
LexLess(a, b) ==
  LET k == CommonLen(a, b) IN k < Len(a) /\ k < Len(b) /\ a[k + 1] < b[k + 1]
NeighbourLen(id, S, slack) ==
  LET lower == {o \in S : LexLess(o, id)}
      upper == {o \in S : LexLess(id, o)}
      prev == {o \in lower : \A q \in lower : q = o \/ LexLess(q, o)}
      next == {o \in upper : \A q \in upper : q = o \/ LexLess(o, q)}
      ns == prev \cup next
  IN IF ns = {} THEN 0 ELSE 1 + IpMax({CommonLen(id, o) : o \in ns}) - slack
(* id_prefix.rs: inside the disambiguation set at least one digit *)
TwoLevelLen(id, hasD, D, S, slack) ==
  IF hasD /\ id \in D THEN (LET k == NeighbourLen(id, D, slack) IN IF k < 1 THEN 1 ELSE k)
  ELSE NeighbourLen(id, S, slack)
(* disambiguate_prefix_with_refs: lengthen while the prefix is a ref name *)
RECURSIVE Lengthen(_, _, _)
Lengthen(id, n, R) == IF n >= Len(id) \/ Prefix(id, n) \notin R THEN n ELSE Lengthen(id, n + 1, R)
=============================================================================
