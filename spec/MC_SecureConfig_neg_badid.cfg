SPECIFICATION MCSpec
CONSTANTS
  Repos = {"r1", "r2", "r3"}
  NumIds = 5
  MaxSteps = 6
  Emit = FALSE
  Bias = 0
  Bug = "accepts_bad_id"
INVARIANTS InvBadIdRejected
VIEW View
CHECK_DEADLOCK FALSE
