SPECIFICATION Spec
CONSTANTS
  MaxNodes = 5
  Shape = "any"
  SubRanges = TRUE
  WithSkips = FALSE
  Engine = "any"
  ExcludeFinding = TRUE
  Bug = "none"
  Emit = TRUE
INVARIANTS InvNoRepeat InvVerdict InvProgress EmitInv
CHECK_DEADLOCK FALSE
