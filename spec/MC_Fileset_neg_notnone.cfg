SPECIFICATION Spec
CONSTANTS
  Comps = {"a", "ab", "A"}
  MaxDepth = 3
  MaxToks = 2
  MaxNest = 3
  Samples = 200
  Bug = "notnone"
  Emit = FALSE
INVARIANTS InvAlgebra InvConfinedToCwd EmitInv
CHECK_DEADLOCK FALSE
