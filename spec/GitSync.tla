------------------------------ MODULE GitSync ------------------------------
(* C34: jj <-> Git synchronisation of bookmarks (lib/src/git.rs:            *)
(* import_refs / export_refs).                                              *)
(*                                                                          *)
(* Per bookmark b the model tracks the four places a branch position lives: *)
(*   local[b]   jj's local bookmark: a RefTarget = a Merge (odd sequence,   *)
(*              MergeAlgebra) over Commit \cup {Absent}; <<x>> = resolved   *)
(*   seen[b]    view.git_refs["refs/heads/b"]: what jj last saw in / wrote  *)
(*              to Git (basis of export)                                    *)
(*   atgit[b]   the b@git remote bookmark (basis of import's 3-way merge)   *)
(*   git[b]     the actual ref in the Git repository                        *)
(* plus known = the commits jj has indexed (a Git-side ref may point to a   *)
(* commit jj has never seen; Import pulls it in).                           *)
(*                                                                          *)
(* Commits are 1..N with a parent table par (Dag); Absent = 0.              *)
(*                                                                          *)
(* Kept apart (DESIGN 2.3):                                                 *)
(*   REFERENCE TRANSCRIPTION  MergeRefTargets, ImportF, ExportF: what jj    *)
(*       does today.  Drives the state machine (Init/Next) that TLC model   *)
(*       checks and that generates S->I behaviours.                         *)
(*   CONTRACTS  ImportOK, ExportOK, ConvergeOK, ImportIdemOK, FrameOK: what *)
(*       property C34 demands of ANY implementation.  Only these judge.     *)
EXTENDS MergeAlgebra, Dag, TLC

Absent == 0

Normal(x) == <<x>>
IsConflicted(t) == Len(t) > 1
Adds(t) == {t[i] : i \in AddPos(t)}
Target(t) == t[1]                     \* of a resolved target

---------------------------------------------------------------------------
(* REFERENCE TRANSCRIPTION of refs.rs merge_ref_targets.                    *)

(* Vec::swap_remove, 1-based *)
SwapRemove(s, i) ==
  IF i = Len(s) THEN SubSeq(s, 1, Len(s) - 1)
  ELSE [SubSeq(s, 1, Len(s) - 1) EXCEPT ![i] = s[Len(s)]]
(* Merge::swap_remove(remove_index, add_index), 0-based term indices *)
MergeSwapRemove(m, ri, ai) == SwapRemove(SwapRemove(m, 2 * ai + 1), 2 * ri + 2)

NAdds(m) == (Len(m) + 1) \div 2
NRems(m) == (Len(m) - 1) \div 2
AddAt(m, i) == m[2 * i + 1]
RemAt(m, j) == m[2 * j + 2]

(* find_pair_to_remove: the candidate add of the pair (i1, i2), <<>> if none *)
PairCand(par, m, i1, i2) ==
  LET a1 == AddAt(m, i1)  a2 == AddAt(m, i2) IN
  IF a1 = Absent \/ a2 = Absent THEN <<>>
  ELSE IF a1 = a2 THEN <<i1, a1>>
  ELSE IF IsAncestor(par, a1, a2) THEN <<i1, a1>>
  ELSE IF IsAncestor(par, a2, a1) THEN <<i2, a2>>
  ELSE <<>>
RemsFor(par, m, id) ==
  {j \in 0..(NRems(m) - 1) : RemAt(m, j) = Absent \/ IsAncestor(par, RemAt(m, j), id)}
GoodPairs(par, m) ==
  {p \in (0..(NAdds(m) - 1)) \X (0..(NAdds(m) - 1)) :
      /\ p[1] < p[2]
      /\ PairCand(par, m, p[1], p[2]) # <<>>
      /\ RemsFor(par, m, PairCand(par, m, p[1], p[2])[2]) # {}}
FirstPair(S) == CHOOSE p \in S : \A q \in S : p[1] < q[1] \/ (p[1] = q[1] /\ p[2] <= q[2])

RECURSIVE RemovePairs(_, _)
RemovePairs(par, m) ==
  LET gp == GoodPairs(par, m) IN
  IF gp = {} THEN m
  ELSE LET p  == FirstPair(gp)
           c  == PairCand(par, m, p[1], p[2])
           rj == Min(RemsFor(par, m, c[2]))
       IN RemovePairs(par, MergeSwapRemove(m, rj, c[1]))

(* resolve_trivial on values where 0 is a legitimate value (Absent): shift  *)
(* by one so that MergeAlgebra's NoValue = 0 stays free                     *)
Shift(m) == [i \in 1..Len(m) |-> m[i] + 1]
ResolveTrivial(m) == TrivialRef(Shift(m), TRUE)        \* 0 = unresolved, else value + 1

MergeRefTargets(par, left, base, right) ==
  IF left = right THEN left                             \* trivial_merge on the three targets
  ELSE IF left = base THEN right
  ELSE IF right = base THEN left
  ELSE LET m == Simplify(Flatten(<<left, base, right>>))
           t == ResolveTrivial(m)
       IN IF t # 0 THEN <<t - 1>> ELSE RemovePairs(par, m)

---------------------------------------------------------------------------
(* The abstract state: a record                                             *)
(*   [local, seen, atgit, git : functions on 1..nb; known : set of commits] *)

Bms(s) == DOMAIN s.git

(* REFERENCE TRANSCRIPTION of import_refs (diff_refs_to_import +            *)
(* import_refs_inner), restricted to local branches.                        *)
ImportChanged(s) == {b \in Bms(s) : s.git[b] # s.atgit[b]}
ImportF(par, s) ==
  [ local |-> [b \in Bms(s) |->
                 IF b \in ImportChanged(s)
                 THEN MergeRefTargets(par, s.local[b], Normal(s.atgit[b]), Normal(s.git[b]))
                 ELSE s.local[b]],
    seen  |-> s.git,
    atgit |-> s.git,
    git   |-> s.git,
    known |-> s.known \cup AncOf(par, {s.git[b] : b \in ImportChanged(s)} \ {Absent}) ]

(* REFERENCE TRANSCRIPTION of export_refs (diff_refs_to_export,             *)
(* export_refs_to_git, copy_exportable_local_bookmarks_to_remote_view).     *)
ExportWanted(s, b) == ~IsConflicted(s.local[b]) /\ Target(s.local[b]) # s.seen[b]
ExportFails(s, b) ==
  /\ ExportWanted(s, b)
  /\ s.git[b] # s.seen[b]                 \* changed in Git since jj last looked
  /\ s.git[b] # Target(s.local[b])        \* ... and not to the value we want anyway
ExportFailed(s) == {b \in Bms(s) : ExportFails(s, b)}
ExportF(s) ==
  LET Done(b) == ExportWanted(s, b) /\ ~ExportFails(s, b) IN
  [ local |-> s.local,
    seen  |-> [b \in Bms(s) |-> IF Done(b) THEN Target(s.local[b]) ELSE s.seen[b]],
    atgit |-> [b \in Bms(s) |->
                 IF ~IsConflicted(s.local[b]) /\ ~ExportFails(s, b)
                 THEN Target(s.local[b]) ELSE s.atgit[b]],
    git   |-> [b \in Bms(s) |-> IF Done(b) THEN Target(s.local[b]) ELSE s.git[b]],
    known |-> s.known ]

(* user actions *)
JjSetF(s, b, c)  == [s EXCEPT !.local[b] = Normal(c)]
GitSetF(s, b, c) == [s EXCEPT !.git[b] = c]

---------------------------------------------------------------------------
(* CONTRACTS                                                                *)

(* Git moved b from a to g while jj holds l (l # <<a>>, l # <<g>>); r is    *)
(* the result.  The meaning of the merge is the signed multiset of          *)
(* l - a + g (RawMerge).  Either r has exactly that meaning - so two        *)
(* different surviving values make a conflict holding both - or a surviving *)
(* value v that is no longer a side of r was FAST-FORWARDED: some side w of *)
(* r is a descendant of v, AND v itself descends from a base y of the merge *)
(* (y absent counts as the root): y <= v <= w.  The second half matters:    *)
(* with base A, jj moving the bookmark BACK to P < A and Git moving it      *)
(* forward to C > A, P <= C holds but Git's move A -> C does not contain    *)
(* jj's move A -> P, so taking C would silently drop jj's update; that must *)
(* be the conflict P - A + C.  Nothing is invented.                         *)
RawMerge(l, a, g) == l \o <<a, g>>
FastForwarded(par, raw, v, r) ==
  /\ v # Absent
  /\ \E w \in Adds(r) \ {Absent} : IsAncestor(par, v, w)
  /\ \E y \in Neg(raw) : y = Absent \/ IsAncestor(par, y, v)
Covered(par, raw, v, r) == v \in Adds(r) \/ FastForwarded(par, raw, v, r)
TwoSidedOK(par, l, a, g, r) ==
  /\ IsMerge(r)
  /\ Adds(r) \subseteq Adds(l) \cup {g}
  /\ \/ SameDenote(r, RawMerge(l, a, g))
     \/ \A v \in Pos(RawMerge(l, a, g)) : Covered(par, RawMerge(l, a, g), v, r)

ImportBookmarkOK(par, l, a, g, r) ==
  IF g = a THEN r = l                              \* nothing happened in Git: untouched
  ELSE IF l = Normal(a) THEN r = Normal(g)         \* only Git changed: propagates (incl. deletion)
  ELSE IF l = Normal(g) THEN r = l                 \* both made the same change
  ELSE TwoSidedOK(par, l, a, g, r)                 \* both changed: nothing dropped

ImportOK(par, s, t) ==
  /\ t.git = s.git                                 \* import never writes Git refs
  /\ t.seen = s.git /\ t.atgit = s.git             \* jj's records now describe Git
  /\ \A b \in Bms(s) : ImportBookmarkOK(par, s.local[b], s.atgit[b], s.git[b], t.local[b])
  /\ s.known \subseteq t.known
  /\ t.known \subseteq s.known \cup AncOf(par, {s.git[b] : b \in Bms(s)} \ {Absent})
  /\ \A b \in Bms(s) : Adds(t.local[b]) \ {Absent} \subseteq t.known

(* a second import right after an import changes nothing *)
ImportIdemOK(t, t2) == t2 = t

ExportBookmarkOK(s, t, failed, b) ==
  LET l == s.local[b] IN
  IF IsConflicted(l)
  THEN /\ t.git[b] = s.git[b] /\ t.seen[b] = s.seen[b] /\ t.atgit[b] = s.atgit[b]
       /\ b \notin failed
  ELSE LET x == Target(l) IN
       (* never overwrite a ref that changed in Git since jj last saw it *)
       /\ (s.git[b] # s.seen[b] => t.git[b] = s.git[b])
       (* a change made only in jj reaches Git *)
       /\ (s.git[b] = s.seen[b] => t.git[b] = x)
       (* failures are reported, and only real ones *)
       /\ (b \in failed <=> (x # s.seen[b] /\ s.git[b] # s.seen[b] /\ s.git[b] # x))
       (* jj's records: updated when Git now holds x, untouched on failure *)
       /\ IF b \in failed THEN t.seen[b] = s.seen[b] /\ t.atgit[b] = s.atgit[b]
          ELSE IF t.git[b] = x THEN t.seen[b] = x /\ t.atgit[b] = x
          ELSE t.seen[b] = s.seen[b] /\ t.atgit[b] \in {s.atgit[b], x}

ExportOK(s, t, failed) ==
  /\ t.local = s.local /\ t.known = s.known
  /\ failed \subseteq Bms(s)
  /\ \A b \in Bms(s) : ExportBookmarkOK(s, t, failed, b)

(* the headline: after Import immediately followed by Export, Git's         *)
(* branches equal jj's non-conflicted bookmarks and nothing failed          *)
ConvergeOK(t, failed) ==
  /\ failed = {}
  /\ \A b \in Bms(t) : ~IsConflicted(t.local[b]) => t.git[b] = Target(t.local[b])

(* user actions change exactly their own component *)
FrameOK(s, t, op, b, c) ==
  IF op = "JjSet" THEN t = [s EXCEPT !.local[b] = Normal(c)]
  ELSE IF op = "JjDelete" THEN t = [s EXCEPT !.local[b] = Normal(Absent)]
  ELSE IF op = "GitSet" THEN t = [s EXCEPT !.git[b] = c]
  ELSE IF op = "GitDelete" THEN t = [s EXCEPT !.git[b] = Absent]
  ELSE FALSE
=============================================================================
