----------------------------- MODULE FileMerge -----------------------------
(* File content merge (lib/src/files.rs: merge_hunks, merge, try_merge).    *)
(*                                                                          *)
(* A file merge is a Merge (MergeAlgebra) whose values are texts: terms[k], *)
(* odd k = adds (sides), even k = removes (bases).  jj diffs                *)
(* removes ++ adds line by line (Diff), resolves every hunk with the        *)
(* cancellation rule (MergeAlgebra: MustResolve / MustNotResolve / Pos) and *)
(* collects the outcomes.                                                   *)
(*                                                                          *)
(* CONTRACT (C04), judged on every recorded call:                           *)
(*   PartitionOK    the hunk partition the merge is made over is a valid    *)
(*                  diff of the inputs (DiffOK)                             *)
(*   FileMergeOK    the three results are the collection, in input order,   *)
(*                  of per-hunk outcomes each allowed by the cancellation   *)
(*                  rule (where C02 leaves the answer open either is        *)
(*                  accepted)                                               *)
(*   the partition-independent identity laws LawTrivial, LawShape,          *)
(*   LawHunksAgree                                                          *)
(* REFERENCE: RefOutcomes = what jj does today in the open zone (leaves the *)
(* hunk unresolved); a difference is divergence, not a violation.           *)
EXTENDS MergeAlgebra, Diff

NumRemoves(n) == (n - 1) \div 2
(* the order in which jj hands the terms to the diff: removes, then adds    *)
DiffInputs(terms) ==
  LET n == Len(terms)  nr == NumRemoves(n)
  IN [j \in 1..n |-> IF j <= nr THEN terms[2 * j] ELSE terms[2 * (j - nr) - 1]]
DiffIdx(n, k) == IF Odd(k) THEN NumRemoves(n) + (k + 1) \div 2 ELSE k \div 2
(* the merge of one hunk's slices, in merge (interleaved) order             *)
HunkMerge(terms, h) ==
  LET n == Len(terms)  di == DiffInputs(terms)
  IN [k \in 1..n |-> Slice(di[DiffIdx(n, k)], h.r[DiffIdx(n, k)])]

RECURSIVE Cat(_, _)           \* concatenation of a sequence of texts
Cat(ss, i) == IF i > Len(ss) THEN <<>> ELSE ss[i] \o Cat(ss, i + 1)

---------------------------------------------------------------------------
(* Per-hunk cancellation rule on text values (C02's TrivialOK re-stated     *)
(* without the integer NoValue, because the values here are sequences).     *)
Status(m, accept) ==
  IF MustResolve(m, accept) THEN "must"
  ELSE IF MustNotResolve(m, accept) THEN "mustnot"
  ELSE "free"
ThePos(m) == CHOOSE v \in Pos(m) : TRUE

Res(v, m)  == [res |-> TRUE,  v |-> v,    m |-> m]
Unres(m)   == [res |-> FALSE, v |-> <<>>, m |-> m]

(* word level: the hunk resolves iff every word hunk resolves *)
WordOutcomes(m, accept, whs, ref) ==
  LET di == DiffInputs(m)
      st(w) == IF whs[w].k = Matching THEN "must" ELSE Status(HunkMerge(m, whs[w]), accept)
      val(w) == IF whs[w].k = Matching THEN Slice(di[1], whs[w].r[1]) ELSE ThePos(HunkMerge(m, whs[w]))
      W == 1..Len(whs)
  IN IF \E w \in W : st(w) = "mustnot" \/ (ref /\ st(w) = "free") THEN {Unres(m)}
     ELSE LET cat == Cat([w \in W |-> val(w)], 1) IN
          IF \A w \in W : st(w) = "must" THEN {Res(cat, m)} ELSE {Res(cat, m), Unres(m)}

(* the outcomes the contract allows for line hunk h (ref = TRUE: exactly    *)
(* what the reference transcription does)                                   *)
HunkOutcomes(terms, accept, level, h, whs, ref) ==
  IF h.k = Matching THEN {Res(Slice(DiffInputs(terms)[1], h.r[1]), <<>>)}
  ELSE LET m == HunkMerge(terms, h)
           st == Status(m, accept)
           un == IF level = "word" THEN WordOutcomes(m, accept, whs, ref) ELSE {Unres(m)}
       IN IF st = "must" THEN {Res(ThePos(m), m)}
          ELSE IF st = "mustnot" \/ ref THEN un
          ELSE {Res(ThePos(m), m)} \cup un

RECURSIVE Choices(_, _)       \* sequence of sets -> set of sequences
Choices(S, i) ==
  IF i > Len(S) THEN {<<>>}
  ELSE {<<x>> \o rest : x \in S[i], rest \in Choices(S, i + 1)}

AllOutcomes(terms, accept, level, lh, wh, ref) ==
  Choices([h \in 1..Len(lh) |-> HunkOutcomes(terms, accept, level, lh[h], wh[h], ref)], 1)

---------------------------------------------------------------------------
(* Collecting outcomes "in input order" (collect_hunks / collect_merged /   *)
(* collect_resolved).                                                       *)
AllRes(os) == \A i \in 1..Len(os) : os[i].res
CatRes(os) == Cat([i \in 1..Len(os) |-> os[i].v], 1)

RECURSIVE CollectFrom(_, _, _)
CollectFrom(os, i, buf) ==
  LET flush == IF buf = <<>> THEN <<>> ELSE << <<buf>> >> IN
  IF i > Len(os) THEN flush
  ELSE IF os[i].res THEN CollectFrom(os, i + 1, buf \o os[i].v)
  ELSE flush \o <<os[i].m>> \o CollectFrom(os, i + 1, <<>>)

MergeHunksOf(os) ==
  IF AllRes(os) THEN [res |-> TRUE, content |-> CatRes(os), hunks |-> <<>>]
  ELSE [res |-> FALSE, content |-> <<>>, hunks |-> CollectFrom(os, 1, <<>>)]
MergedOf(os, n) ==
  IF AllRes(os) THEN <<CatRes(os)>>
  ELSE [k \in 1..n |-> Cat([i \in 1..Len(os) |-> IF os[i].res THEN os[i].v ELSE os[i].m[k]], 1)]
TryOf(os) ==
  IF AllRes(os) THEN [some |-> TRUE, content |-> CatRes(os)]
  ELSE [some |-> FALSE, content |-> <<>>]

---------------------------------------------------------------------------
(* CONTRACTS                                                                *)

PartitionOK(terms, level, lh, wh) ==
  /\ DiffOK(DiffInputs(terms), "exact", lh)
  /\ Len(wh) = Len(lh)
  /\ level = "word" =>
       \A h \in 1..Len(lh) :
         lh[h].k = Different => DiffOK(DiffInputs(HunkMerge(terms, lh[h])), "exact", wh[h])

FileMergeOK(terms, accept, level, lh, wh, mh, m, t) ==
  \E os \in AllOutcomes(terms, accept, level, lh, wh, FALSE) :
    /\ mh = MergeHunksOf(os)
    /\ m = MergedOf(os, Len(terms))
    /\ t = TryOf(os)

FollowsReference(terms, accept, level, lh, wh, mh, m, t) ==
  \E os \in AllOutcomes(terms, accept, level, lh, wh, TRUE) :
    /\ mh = MergeHunksOf(os)
    /\ m = MergedOf(os, Len(terms))
    /\ t = TryOf(os)

(* Partition-independent laws.  *)
(* sides and bases cancel to one side (or, same-change on, all surviving    *)
(* sides agree against one surviving base): the merge is that content.      *)
LawTrivial(terms, accept, mh, m, t) ==
  MustResolve(terms, accept) =>
    LET x == ThePos(terms) IN
      /\ mh.res /\ mh.content = x
      /\ m = <<x>>
      /\ t.some /\ t.content = x
(* resolved or a conflict of the input's arity; the three entry points agree *)
LawShape(terms, mh, m, t) ==
  /\ mh.res = t.some
  /\ mh.res => (m = <<mh.content>> /\ t.content = mh.content)
  /\ ~mh.res => /\ Len(m) = Len(terms)
                /\ Len(mh.hunks) >= 1
                /\ \E h \in 1..Len(mh.hunks) : Len(mh.hunks[h]) > 1
                /\ \A h \in 1..Len(mh.hunks) :
                     /\ Len(mh.hunks[h]) \in {1, Len(terms)}
                     /\ Len(mh.hunks[h]) = 1 => mh.hunks[h][1] # <<>>
                     /\ (h > 1 /\ Len(mh.hunks[h]) = 1) => Len(mh.hunks[h - 1]) > 1
(* merge() is merge_hunks() concatenated term by term *)
LawHunksAgree(terms, mh, m) ==
  ~mh.res =>
    \A k \in 1..Len(m) :
      m[k] = Cat([h \in 1..Len(mh.hunks) |->
                    IF Len(mh.hunks[h]) = 1 THEN mh.hunks[h][1] ELSE mh.hunks[h][k]], 1)
===========================================================================
