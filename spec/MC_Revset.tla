----------------------------- MODULE MC_Revset -----------------------------
(* C19 design level + case generator.                                       *)
(* State: a DAG shape (with a hidden commit) and an expression, grown by    *)
(* Next from the leaves to depth 2.  Invariants: Eval obeys the algebraic   *)
(* laws that jj's optimiser (revset.rs optimize(): unfold_difference,       *)
(* fold_redundant_expression, fold_generation, fold_ancestors_union, ...)   *)
(* relies on, so the rewrites are sound for the denotation the judge uses.  *)
(* EmitInv prints every (shape, expression) as a case for the replayer.     *)
EXTENDS Revset, TLC, Json

CONSTANTS Shapes, MaxDepth, Small, Focus, Bug

VARIABLES g, e, d
vars == <<g, e, d>>

(* shape 1: diamond with a tail and a hidden child; shape 2: criss-cross    *)
(* with an octopus merge and a hidden branch; shape 3: two visible heads,   *)
(* the merge of both hidden                                                 *)
(* shapes 4 and 5 (Focus): commits are written in id order, so index        *)
(* position = id; a long branch is written BEFORE a short one from the same *)
(* base, i.e. position order and generation order disagree (4: two branches *)
(* from the root; 5: long and short branch from commit 1, merged)           *)
ShapePar(s) ==
  IF s = 4 THEN << <<0>>, <<1>>, <<2>>, <<0>>, <<4>>, <<5>> >>
  ELSE IF s = 5 THEN << <<0>>, <<1>>, <<2>>, <<3>>, <<1>>, <<4, 5>> >>
  ELSE IF s = 1 THEN << <<0>>, <<1>>, <<1>>, <<2, 3>>, <<4>>, <<3>> >>
  ELSE IF s = 2 THEN << <<0>>, <<0>>, <<1, 2>>, <<2, 1>>, <<3, 4, 2>>, <<4>> >>
  ELSE << <<0>>, <<1>>, <<0>>, <<3>>, <<2, 4>>, <<5>> >>
ShapeVh(s) == IF s = 4 THEN {3, 6} ELSE IF s = 5 THEN {6} ELSE IF s = 1 THEN {5} ELSE IF s = 2 THEN {5} ELSE {2, 4}
ShapeTs(s) == IF s = 1 THEN <<3, 6, 2, 5, 1, 4>> ELSE IF s = 2 THEN <<1, 2, 3, 4, 5, 6>> ELSE <<6, 5, 4, 3, 2, 1>>
ShapeG(s) == [c \in 0..6 |-> IF c = 0 THEN <<>> ELSE ShapePar(s)[c]]

Commits(ids) == [t |-> "commits", ids |-> ids]
(* Focus = TRUE: generation-bounded ancestors/descendants over MULTI-element *)
(* root sets that span branches of different depth; Small = TRUE: the quick *)
(* tier's reduced alphabet                                                  *)
FocusGens == {<<0, 2>>, <<1, 3>>, <<2, 4>>, <<2, 3>>, <<1, 2>>, <<0, 3>>, <<1, Inf>>}
Leaves == IF Focus THEN {Commits(<<3, 4>>), Commits(<<1, 4>>), Commits(<<2, 5>>), Commits(<<3, 5>>),
                         Commits(<<1, 3, 5>>), [t |-> "root"]}
          ELSE IF Small THEN {[t |-> "all"], [t |-> "root"], Commits(<<2>>), Commits(<<3, 6>>), Commits(<<4, 5>>)}
          ELSE {[t |-> "none"], [t |-> "all"], [t |-> "root"], [t |-> "vheads"],
                Commits(<<2>>), Commits(<<3, 6>>), Commits(<<4, 5>>), Commits(<<1, 5>>)}
FewLeaves == IF Focus THEN {Commits(<<3, 4>>), Commits(<<2, 5>>)} ELSE IF Small THEN {[t |-> "all"], Commits(<<3, 6>>)}
             ELSE {[t |-> "all"], [t |-> "vheads"], Commits(<<3, 6>>), Commits(<<2>>)}
Gens == IF Focus THEN FocusGens ELSE IF Small THEN {<<0, Inf>>, <<1, 2>>, <<1, Inf>>}
        ELSE {<<0, Inf>>, <<1, 2>>, <<1, Inf>>, <<0, 2>>, <<2, 3>>}
PRanges == {<<0, Inf>>, <<0, 1>>}

Unary(x) ==
  IF Focus THEN
    {[t |-> "anc", x |-> x, lo |-> gr[1], hi |-> gr[2], plo |-> 0, phi |-> Inf] : gr \in Gens}
    \cup {[t |-> "desc", x |-> x, lo |-> gr[1], hi |-> gr[2]] : gr \in Gens}
    \cup {[t |-> "heads", x |-> x]}
  ELSE
  {[t |-> "anc", x |-> x, lo |-> gr[1], hi |-> gr[2], plo |-> pr[1], phi |-> pr[2]] : gr \in Gens, pr \in PRanges}
  \cup {[t |-> "desc", x |-> x, lo |-> gr[1], hi |-> gr[2]] : gr \in Gens}
  \cup {[t |-> f, x |-> x] : f \in {"heads", "roots", "forkpoint", "mergepoint", "not", "connected"}}
  \cup {[t |-> "latest", x |-> x, n |-> k] : k \in {1, 2}}
Binary(a, b) ==
  IF Focus THEN {[t |-> "union", a |-> a, b |-> b]} ELSE
  {[t |-> f, a |-> a, b |-> b] : f \in {"union", "inter", "diff", "coalesce"}}
  \cup {[t |-> "range", r |-> a, h |-> b, lo |-> 0, hi |-> Inf, plo |-> 0, phi |-> Inf],
        [t |-> "dagrange", r |-> a, h |-> b], [t |-> "reachable", s |-> a, d |-> b]}

Init == g \in Shapes /\ e \in Leaves /\ d = 0
Next ==
  /\ d < MaxDepth
  /\ d' = d + 1
  /\ g' = g
  /\ \/ e' \in Unary(e)
     \/ \E x \in (IF d = 0 THEN Leaves ELSE FewLeaves) : e' \in Binary(e, x) \cup Binary(x, e)
Spec == Init /\ [][Next]_vars

---------------------------------------------------------------------------
G == ShapeG(g)
C(x) == Ctx(G, ShapeVh(g), x, ShapeTs(g))
(* evaluate y in the scope of the WHOLE expression x (same referenced set) *)
Ev(y, x) == Eval(y, C(x))
EvT(x) == Eval(x, C(x))
AllOf(x) == AncOf(G, ShapeVh(g) \cup Refd(x))

AncB(H, lo, hi, plo, phi) == AncGenR(G, H, lo, hi, plo, phi, Bug = "gen_hi_inclusive")
AddGen(l1, h1, l2, h2) ==       \* fold_generation's add_generation
  IF l1 >= h1 \/ l2 >= h2 THEN <<0, 0>>
  ELSE <<l1 + l2, IF h1 >= Inf \/ h2 >= Inf THEN Inf ELSE h1 + h2 - 1>>

(* every denotation lies inside all() of its scope (what `all() & x -> x`,  *)
(* `~~x -> x` need)                                                         *)
InvWithinAll == EvT(e) \subseteq AllOf(e)
(* unfold_difference: a ~ b  ==  a & ~b *)
InvDifference ==
  e.t = "diff" => EvT(e) = Ev(e.a, e) \cap (AllOf(e) \ Ev(e.b, e))
(* range is ancestors minus ancestors; x::y is x:: & ::y *)
InvRange ==
  /\ e.t = "range" => EvT(e) = AncOf(G, Ev(e.h, e)) \ AncOf(G, Ev(e.r, e))
  /\ e.t = "dagrange" =>
       EvT(e) = DescGen(G, Ev(e.r, e), 0, Inf, AllOf(e)) \cap AncOf(G, Ev(e.h, e))
(* fold_generation: ancestors(ancestors(h, g2), g1) == ancestors(h, g1 + g2) *)
InvFoldGeneration ==
  (e.t = "anc" /\ e.x.t = "anc" /\ e.plo = e.x.plo /\ e.phi = e.x.phi) =>
     LET s == AddGen(e.lo, e.hi, e.x.lo, e.x.hi)
         H == Ev(e.x.x, e)
     IN AncB(AncB(H, e.x.lo, e.x.hi, e.plo, e.phi), e.lo, e.hi, e.plo, e.phi)
          = AncB(H, s[1], s[2], e.plo, e.phi)
InvFoldDescendants ==
  (e.t = "desc" /\ e.x.t = "desc") =>
     LET s == AddGen(e.lo, e.hi, e.x.lo, e.x.hi)
         R == Ev(e.x.x, e)
     IN EvT(e) = DescGen(G, R, s[1], s[2], AllOf(e))
(* heads/roots select from their argument and are idempotent; full ancestors *)
(* distribute over union (fold_ancestors_union)                              *)
InvHeadsRoots ==
  /\ e.t \in {"heads", "roots", "latest"} => EvT(e) \subseteq Ev(e.x, e)
  /\ e.t = "heads" => Heads(G, EvT(e)) = EvT(e)
  /\ e.t = "roots" => Roots(G, EvT(e)) = EvT(e)
  /\ (e.t = "anc" /\ e.lo = 0 /\ e.hi = Inf /\ e.plo = 0 /\ e.phi = Inf /\ e.x.t = "union") =>
       EvT(e) = AncOf(G, Ev(e.x.a, e)) \cup AncOf(G, Ev(e.x.b, e))
(* ~(::x) is x.. over the visible heads and mentioned commits (fold_not_in_ancestors) *)
InvNotAncestors ==
  (e.t = "not" /\ e.x.t = "anc" /\ e.x.lo = 0 /\ e.x.hi = Inf /\ e.x.plo = 0 /\ e.x.phi = Inf) =>
     EvT(e) = AncOf(G, ShapeVh(g) \cup Refd(e)) \ AncOf(G, Ev(e.x.x, e))

Case == [par |-> ShapePar(g), vh |-> ShapeVh(g), ts |-> ShapeTs(g), shape |-> g, e |-> e]
EmitInv == d >= 1 => PrintT(<<"REPLAY", ToJson(Case)>>)
=============================================================================
