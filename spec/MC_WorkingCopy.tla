--------------------------- MODULE MC_WorkingCopy ---------------------------
(* Design-level model checking of WorkingCopy (C23, C24, C25, C27) and      *)
(* S->I behaviour generator.  The contracts are evaluated on every          *)
(* transition (pre-state, action, post-state); the result is carried in     *)
(* the variable `bad` so that state merging by the VIEW cannot lose a       *)
(* failing transition.                                                      *)
EXTENDS WorkingCopy, TLC, Json

CONSTANTS
  MaxSteps,      \* length of a behaviour
  MaxEditRun,    \* at most this many user edits in a row (then a jj action)
  Acts,          \* enabled action names
  EditPaths,     \* paths the user edits
  Contents,      \* content ids of regular files
  SymTargets,    \* symlink targets
  RootIgnore, DirIgnore,   \* ignore-file content ids usable at the root / in d
  TreeIds,       \* indexes into AllTrees: the trees CheckOut may be given
  SparseIds,     \* indexes into AllSparse
  XP,            \* exec-bit policy
  Strict,        \* "none": the known findings F1-F9 are tolerated; "all": none is; "F<n>": all but that one
  Emit           \* TRUE: print complete behaviours for the replayer

VARIABLES st, bad, n, run, hist, ended
vars == <<st, bad, n, run, hist, ended>>

P(a) == a   \* readability: paths are tuples
Tree(gi, d, dgi, dx, dxz, dy, f) ==
  LET seq == <<gi, d, dgi, dx, dxz, dy, f>> IN [p \in Paths |-> seq[Pos(p)]]
A == Absent
AllTrees == <<
  Tree(A, A, A, A, A, A, A),                                        \* 1 empty
  Tree(A, A, A, A, A, A, File(1, FALSE)),                           \* 2 f
  Tree(A, A, A, File(1, FALSE), A, A, File(2, TRUE)),               \* 3 d/x, f (exec)
  Tree(A, File(1, FALSE), A, A, A, A, A),                           \* 4 d as a file
  Tree(A, A, A, File(2, FALSE), A, File(1, FALSE), File(1, FALSE)), \* 5 d/x, d/y, f
  Tree(A, Sym("out"), A, A, A, A, File(1, FALSE)),                  \* 6 d -> outside, f
  Tree(File(3, FALSE), A, A, File(1, FALSE), A, A, A),              \* 7 .gitignore "x", d/x tracked
  Tree(A, A, A, File(1, FALSE), A, A, Conf(<<1, 0, 2>>)),           \* 8 conflict at f
  Tree(File(2, FALSE), A, A, Conf(<<1, 2, 0>>), A, File(2, TRUE), A), \* 9 .gitignore "d/", conflict at d/x
  Tree(A, A, File(5, FALSE), A, A, File(1, FALSE), Sym("f")),       \* 10 d/.gitignore, d/y, f symlink
  Tree(File(2, FALSE), A, A, File(1, FALSE), A, File(2, FALSE), A), \* 11 .gitignore "d/", d/x and d/y tracked
  Tree(File(2, FALSE), A, A, A, File(1, TRUE), A, A),               \* 12 .gitignore "d/", d/x/z tracked (two levels inside)
  Tree(A, A, A, A, File(2, FALSE), File(1, FALSE), A),              \* 13 d/x/z, d/y
  Tree(A, A, A, File(1, FALSE), A, A, ConfL(<<1, 0, 2>>, 1)),       \* 14 = 8 with label set 1
  Tree(A, A, A, File(1, FALSE), A, A, ConfL(<<1, 0, 2>>, 2)),       \* 15 = 8 with label set 2
  Tree(A, A, A, ConfL(<<1, 2, -1>>, 1), A, A, File(1, FALSE)),      \* 16 file-vs-symlink conflict at d/x, labels 1
  Tree(A, A, A, ConfL(<<1, 2, -1>>, 2), A, A, File(1, FALSE)),      \* 17 the same tree ids, labels 2
  Tree(A, A, A, ConfL(<<-1, 0, 2>>, 0), A, A, ConfL(<<2, 1, 0>>, 0)) >> \* 18 symlink-vs-file and file conflict, unlabelled
AllSparse == << {<<>>}, {<<"d">>}, {<<"f">>}, {<<"d", "x">>, <<"f">>}, {<<"gi">>, <<"d", "y">>}, {} >>

AllEditPaths == Paths
SparseEditPaths == {<<"f">>, <<"d">>, <<"d", "x">>}
IgnoreEditPaths == {<<"gi">>, <<"d">>}
DirPaths == {<<"d">>, <<"d", "x">>}
InsideIgnoredPaths == {<<"d", "x">>, <<"d", "x", "z">>, <<"d", "y">>}
IgnoreIdsOf(p) == IF Len(p) = 1 THEN RootIgnore ELSE DirIgnore

(* an action instance *)
Edits ==
  {[a |-> "Write", p |-> p, c |-> c, t |-> ""] :
      p \in {q \in EditPaths : ~IsIgnorePath(q)}, c \in Contents}
  \cup UNION {{[a |-> "Write", p |-> p, c |-> c, t |-> ""] : c \in IgnoreIdsOf(p)} :
                p \in {q \in EditPaths : IsIgnorePath(q)}}
  \cup {[a |-> "Chmod", p |-> p, c |-> 0, t |-> ""] : p \in EditPaths}
  \cup {[a |-> "Symlink", p |-> p, c |-> 0, t |-> t] : p \in EditPaths, t \in SymTargets}
  \cup {[a |-> "Delete", p |-> p, c |-> 0, t |-> ""] : p \in EditPaths}
  \cup {[a |-> "Mkfifo", p |-> p, c |-> 0, t |-> ""] : p \in {q \in EditPaths : ~IsIgnorePath(q)}}
  \cup {[a |-> "DirToSymlink", p |-> p, c |-> 0, t |-> t] : p \in {q \in EditPaths : CanBeDir(q)}, t \in SymTargets}
  \cup {[a |-> "FileToDir", p |-> p, c |-> 0, t |-> ""] : p \in {q \in EditPaths : CanBeDir(q)}}
  \cup {[a |-> "RmTree", p |-> p, c |-> 0, t |-> ""] : p \in {q \in EditPaths : CanBeDir(q)}}
  \cup {[a |-> "DirToFile", p |-> p, c |-> c, t |-> ""] : p \in {q \in EditPaths : CanBeDir(q)}, c \in Contents}

EditEnabled(s, e) ==
  /\ e.a \in Acts
  /\ s.err = ""
  /\ CASE e.a = "Write" -> CanWrite(s, e.p, e.c)
       [] e.a = "Chmod" -> CanChmod(s, e.p)
       [] e.a = "Symlink" -> CanSymlink(s, e.p, e.t)
       [] e.a = "Delete" -> CanDelete(s, e.p)
       [] e.a = "Mkfifo" -> CanMkfifo(s, e.p)
       [] e.a = "FileToDir" -> CanFileToDir(s, e.p)
       [] e.a = "DirToSymlink" -> CanDirToSymlink(s, e.p, e.t)
       [] e.a = "RmTree" -> CanRmTree(s, e.p)
       [] e.a = "DirToFile" -> CanDirToFile(s, e.p, e.c)
EditDo(s, e) ==
  CASE e.a = "Write" -> DoWrite(s, e.p, e.c)
    [] e.a = "Chmod" -> DoChmod(s, e.p)
    [] e.a = "Symlink" -> DoSymlink(s, e.p, e.t)
    [] e.a = "Delete" -> DoDelete(s, e.p)
    [] e.a = "Mkfifo" -> DoMkfifo(s, e.p)
    [] e.a = "FileToDir" -> DoFileToDir(s, e.p)
    [] e.a = "DirToSymlink" -> DoDirToSymlink(s, e.p, e.t)
    [] e.a = "RmTree" -> DoRmTree(s, e.p)
    [] e.a = "DirToFile" -> DoDirToFile(s, e.p, e.c)

TreeSeq(tree) == [i \in 1..Len(PathOrder) |-> tree[PathOrder[i]]]
PostOf(s) == [disk |-> TreeSeq(s.disk), tree |-> TreeSeq(s.tree), sparse |-> s.sparse,
              skipped |-> s.stats.skipped, err |-> s.err]

(* verdict of one transition of the reference: "" or the failing contract; the known   *)
(* findings F1-F3 (WorkingCopy.tla) are tolerated unless Strict                          *)
Tol(id) == Strict = "none" \/ (Strict # "all" /\ Strict # id)
SnapshotVerdict(s, s2) ==
  LET v == SnapshotContract(s, s2) IN
  IF \/ v = "ok"
     \/ (v = "Panic:Snapshot" /\ ((Tol("F2") /\ StaleStateShape(s)) \/ (Tol("F4") /\ DirConflictShape(s))
                                  \/ (Tol("F5") /\ TrackedDirShape(s))))
     \/ (v = "SnapshotOK" /\ ((Tol("F6") /\ StaleIgnoredShape(s)) \/ (Tol("F8") /\ ThroughSymlinkShape(s))))
     \/ (v = "Error:Snapshot" /\ Tol("F7") /\ NotDirShape(s))
     \/ (v = "SnapshotOutsideSparse" /\ Tol("F9") /\ SparseClashShape(s))
  THEN "" ELSE v
CheckOutVerdict(s, new, s2) ==
  LET v == CheckOutContract(s, new, s2) IN
  IF v = "Panic:CheckOut" /\ Tol("F3") /\ UnsortedShape(s, new) THEN ""
  ELSE IF v # "ok" THEN v
  ELSE IF Pristine(s) /\ ~((Tol("F2") /\ StaleStateShape(s2)) \/ (Tol("F5") /\ TrackedDirShape(s2)))
          /\ (DoSnapshot(s2).tree # new \/ DoSnapshot(s2).err # "") THEN "SnapshotAfterCheckoutSame"
  ELSE ""
SparseVerdict(s, sp, s2) ==
  LET v == SparseContract(s, sp, s2) IN
  IF v = "ok" \/ (v = "Panic:SetSparse" /\ Tol("F1") /\ SparsePanicShape(s, sp)) THEN "" ELSE v

Init == st = InitState(XP) /\ bad = "" /\ n = 0 /\ run = 0 /\ hist = <<>> /\ ended = FALSE

EditStep ==
  /\ run < MaxEditRun
  /\ \E e \in Edits :
       /\ EditEnabled(st, e)
       /\ st' = EditDo(st, e)
       /\ bad' = IF WellFormed(st'.disk) THEN "" ELSE "model:disk-not-well-formed"
       /\ hist' = Append(hist, [a |-> e.a, p |-> e.p, c |-> e.c, t |-> e.t])
  /\ run' = run + 1
SnapshotStep ==
  /\ "Snapshot" \in Acts /\ CanSnapshot(st)
  /\ st' = DoSnapshot(st)
  /\ bad' = IF Emit THEN "" ELSE SnapshotVerdict(st, st')
  /\ hist' = Append(hist, [a |-> "Snapshot"])
  /\ run' = 0
CheckOutStep ==
  /\ "CheckOut" \in Acts
  /\ \E i \in TreeIds :
       /\ CanCheckOut(st, AllTrees[i])
       /\ st' = DoCheckOut(st, AllTrees[i])
       /\ bad' = IF Emit THEN "" ELSE CheckOutVerdict(st, AllTrees[i], st')
       /\ hist' = Append(hist, [a |-> "CheckOut", ti |-> i, tree |-> TreeSeq(AllTrees[i])])
  /\ run' = 0
SparseStep ==
  /\ "SetSparse" \in Acts
  /\ \E i \in SparseIds :
       /\ CanSetSparse(st, AllSparse[i]) /\ AllSparse[i] # st.sparse
       /\ st' = DoSetSparse(st, AllSparse[i])
       /\ bad' = IF Emit THEN "" ELSE SparseVerdict(st, AllSparse[i], st')
       /\ hist' = Append(hist, [a |-> "SetSparse", sp |-> AllSparse[i]])
  /\ run' = 0

(* a behaviour ends with one deterministic End step, so that the generator prints  *)
(* each simulated behaviour exactly once                                           *)
EndStep == /\ ~ended /\ (n = MaxSteps \/ st.err # "")
           /\ ended' = TRUE /\ UNCHANGED <<st, bad, n, run, hist>>
Next == \/ /\ n < MaxSteps /\ bad = "" /\ st.err = "" /\ n' = n + 1 /\ UNCHANGED ended
           /\ (EditStep \/ SnapshotStep \/ CheckOutStep \/ SparseStep)
        \/ EndStep
Spec == Init /\ [][Next]_vars

View == <<st, bad, n, run, ended>>

Inv_Contracts == bad = ""
(* the same, split by the property that owns the contract *)
Inv_C23 == bad \notin {"SnapshotOK", "SnapshotChangedDisk", "Panic:Snapshot", "Error:Snapshot"}
Inv_C24 == bad \notin {"CheckOutOK", "CheckOutTree", "SnapshotAfterCheckoutSame", "Error:CheckOut"}
Inv_C25 == bad \notin {"CheckOutSafe", "Panic:CheckOut"}
Inv_C27 == bad \notin {"SparseOK", "Panic:SetSparse", "Error:SetSparse", "SnapshotOutsideSparse"}
Inv_NoStrayMarker == \A p \in Paths : st.tree[p].k = "file" => st.tree[p].c # -1
Inv_TreeWellFormed == \A p \in Paths : st.tree[p].k # "absent" => \A q \in Under(p) : st.tree[q].k = "absent"
Inv_Outside == st.out = InitOut

EmitInv == (Emit /\ ended /\ hist # <<>>) => PrintT(<<"REPLAY", ToJson([xp |-> XP, steps |-> hist])>>)
=============================================================================
