---------------------------- MODULE MC_GitSync ----------------------------
(* Design-level check of GitSync and S->I behaviour generator.             *)
(*                                                                          *)
(* The state machine is driven by the REFERENCE TRANSCRIPTION (ImportF,    *)
(* ExportF, MergeRefTargets); every transition is checked against the      *)
(* CONTRACTS (okStep / okConv / okIdem are computed in the action from the *)
(* pre- and post-state, so that no transition escapes even though `hist`   *)
(* is hidden from the fingerprint).  Bug seeds a design error for the      *)
(* negative configs.                                                       *)
EXTENDS GitSync, Json

CONSTANTS NB,          \* number of bookmarks
          Par,         \* parent table (bound to MC_Par*)
          GitOnly,     \* commits that initially exist only on the Git side
          MaxSteps,    \* behaviour length bound (0 = unbounded, exhaustive reachability)
          MaxTerms,    \* bound on the size of a conflicted target (state constraint)
          Emit,        \* "none" | "all" (every transition, exhaustive) | "done" (simulation)
          Bug          \* "none" | seeded design bug

VARIABLES st, afterImport, failed, okStep, okConv, okIdem, n, hist

vars == <<st, afterImport, failed, okStep, okConv, okIdem, n, hist>>
View == <<st, afterImport, failed, okStep, okConv, okIdem, n>>

(* chain 1 <- 2 <- 3, fork 4 from 1, 5 child of 4 *)
MC_Par3 == <<<<>>, <<1>>, <<1>>>>                 \* 1 <- 2, 1 <- 3 (fork)
MC_Par4 == <<<<>>, <<1>>, <<2>>, <<1>>>>          \* chain 1-2-3, 4 forks from 1
MC_Par5 == <<<<>>, <<1>>, <<2>>, <<1>>, <<4>>>>

Commits == DOMAIN Par
B == 1..NB

(* seeded design bugs *)
BugImportF(s) ==
  LET r == ImportF(Par, s) IN
  IF Bug = "import_drops_deletion"     \* a ref deleted in Git is not propagated
  THEN [r EXCEPT !.local = [b \in B |-> IF s.git[b] = Absent THEN s.local[b] ELSE r.local[b]]]
  ELSE IF Bug = "conflict_takes_git"   \* two-sided change resolved to Git's side
  THEN [r EXCEPT !.local = [b \in B |-> IF s.git[b] # s.atgit[b] THEN Normal(s.git[b]) ELSE r.local[b]]]
  ELSE IF Bug = "import_forgets_atgit" \* the @git record is not updated: a second import merges again
  THEN [r EXCEPT !.atgit = s.atgit]
  ELSE IF Bug = "ff_shortcut"          \* local is an ancestor of Git's new value: take Git's value without merging
  THEN [r EXCEPT !.local = [b \in B |->
          IF /\ s.git[b] # s.atgit[b] /\ ~IsConflicted(s.local[b])
             /\ Target(s.local[b]) # Absent /\ s.git[b] # Absent
             /\ IsAncestor(Par, Target(s.local[b]), s.git[b])
          THEN Normal(s.git[b]) ELSE r.local[b]]]
  ELSE IF Bug = "reimport_resolves"    \* an import with nothing new "resolves" a conflict to Git's side
  THEN [r EXCEPT !.local = [b \in B |-> IF b \notin ImportChanged(s) /\ IsConflicted(s.local[b])
                                        THEN Normal(s.git[b]) ELSE r.local[b]]]
  ELSE r
BugExportF(s) ==
  IF Bug = "export_overwrites"         \* export without compare-and-swap on the last seen value
  THEN [ExportF(s) EXCEPT
          !.git   = [b \in B |-> IF ExportWanted(s, b) THEN Target(s.local[b]) ELSE s.git[b]],
          !.seen  = [b \in B |-> IF ExportWanted(s, b) THEN Target(s.local[b]) ELSE s.seen[b]],
          !.atgit = [b \in B |-> IF ~IsConflicted(s.local[b]) THEN Target(s.local[b]) ELSE s.atgit[b]]]
  ELSE IF Bug = "export_silent"       \* export neither writes nor reports
  THEN s
  ELSE ExportF(s)
BugFailed(s) == IF Bug \in {"export_overwrites", "export_silent"} THEN {} ELSE ExportFailed(s)

Init ==
  /\ st = [ local |-> [b \in B |-> Normal(Absent)], seen |-> [b \in B |-> Absent],
            atgit |-> [b \in B |-> Absent], git |-> [b \in B |-> Absent],
            known |-> Commits \ GitOnly ]
  /\ afterImport = FALSE /\ failed = {}
  /\ okStep = TRUE /\ okConv = TRUE /\ okIdem = TRUE
  /\ n = 0 /\ hist = <<>>

Post(s) == [local |-> s.local, seen |-> s.seen, atgit |-> s.atgit, git |-> s.git,
            known |-> s.known]

Behaviour(h) == [par |-> Par, gitonly |-> GitOnly, nb |-> NB, steps |-> h]
Log(a, b, c) == hist' = Append(hist, [a |-> a, b |-> b, c |-> c, post |-> Post(st')])

User(a, b, c, new) ==
  /\ st' = new
  /\ afterImport' = FALSE /\ failed' = {}
  /\ okStep' = FrameOK(st, st', a, b, c) /\ okConv' = TRUE /\ okIdem' = TRUE
  /\ Log(a, b, c)

JjSet(b, c)  == c \in st.known /\ st.local[b] # Normal(c) /\ User("JjSet", b, c, JjSetF(st, b, c))
JjDelete(b)  == st.local[b] # Normal(Absent) /\ User("JjDelete", b, 0, JjSetF(st, b, Absent))
GitSet(b, c) == st.git[b] # c /\ User("GitSet", b, c, GitSetF(st, b, c))
GitDelete(b) == st.git[b] # Absent /\ User("GitDelete", b, 0, GitSetF(st, b, Absent))

Import ==
  /\ st' = BugImportF(st)
  /\ afterImport' = TRUE /\ failed' = {}
  /\ okStep' = ImportOK(Par, st, st')
  /\ okIdem' = ImportIdemOK(st', BugImportF(st'))
  /\ okConv' = TRUE
  /\ Log("Import", 0, 0)

Export ==
  /\ st' = BugExportF(st)
  /\ failed' = BugFailed(st)
  /\ afterImport' = FALSE
  /\ okStep' = ExportOK(st, st', failed')
  /\ okConv' = (afterImport => ConvergeOK(st', failed'))
  /\ okIdem' = TRUE
  /\ Log("Export", 0, 0)

Step ==
  \/ \E b \in B, c \in Commits : JjSet(b, c) \/ GitSet(b, c)
  \/ \E b \in B : JjDelete(b) \/ GitDelete(b)
  \/ Import
  \/ Export

Next ==
  /\ (MaxSteps = 0 \/ n < MaxSteps)
  /\ Step
  /\ n' = IF MaxSteps = 0 THEN 0 ELSE n + 1
  /\ (Emit = "all" => PrintT(<<"REPLAY", ToJson(Behaviour(hist'))>>))

Spec == Init /\ [][Next]_vars

Small == \A b \in B : Len(st.local[b]) <= MaxTerms

---------------------------------------------------------------------------
TypeOK ==
  /\ \A b \in B : /\ IsMerge(st.local[b])
                  /\ \A i \in 1..Len(st.local[b]) : st.local[b][i] \in Commits \cup {Absent}
                  /\ st.seen[b] \in Commits \cup {Absent}
                  /\ st.atgit[b] \in Commits \cup {Absent}
                  /\ st.git[b] \in Commits \cup {Absent}
  /\ st.known \subseteq Commits

InvStep == okStep            \* every transition meets its contract
InvConverge == okConv        \* Import;Export converges
InvIdem == okIdem            \* a second Import is a no-op

(* model lemmas (facts about the design, reported in the notes) *)
InvRecordsAgree == st.seen = st.atgit
InvConflictSmall == \A b \in B : Len(st.local[b]) <= 3
InvBookmarksKnown == \A b \in B : Adds(st.local[b]) \ {Absent} \subseteq st.known

(* generator: with -simulate, emit the behaviour when it reaches MaxSteps  *)
EmitInv == (Emit = "done" /\ MaxSteps > 0 /\ n = MaxSteps) => PrintT(<<"REPLAY", ToJson(Behaviour(hist))>>)
=============================================================================
