---------------------------- MODULE MC_TextWidth ----------------------------
(* Design-level check and case generator for C44.  The state is one case     *)
(* (kind, text, ellipsis, width); texts are grown by Next so every text over *)
(* the alphabet up to MaxLen is reached with every ellipsis and width.       *)
(*   kind "shorten": elide_start/end, write_truncated_start/end, and (with   *)
(*                   the empty ellipsis) write_padded_start/end/centered     *)
(*   kind "wrap":    wrap_bytes / write_wrapped, alphabet with spaces        *)
(*   kind "differ":  texts with characters whose two width measures differ   *)
(*                   (known finding); only the elide_* contracts are claimed *)
EXTENDS TextWidth, TLC, Json

CONSTANTS MaxLen, MaxWrapLen, MaxDifferLen, MaxW, Kinds, Emit

VARIABLES kind, t, e, w
vars == <<kind, t, e, w>>

Ellipses == {<<>>, <<"a">>, <<"a", "a">>, <<"W">>, <<"z", "a", "W">>}
Alphabet(k) == IF k = "shorten" THEN {"a", "W", "m", "z"}
               ELSE IF k = "wrap" THEN {"a", "W", "m", "s"}
               ELSE {"a", "W", "c", "e", "j", "t", "v"}
Limit(k) == IF k = "shorten" THEN MaxLen ELSE IF k = "wrap" THEN MaxWrapLen ELSE MaxDifferLen

Init == /\ kind \in Kinds /\ t = <<>> /\ w \in 0..MaxW
        /\ e \in (IF kind = "wrap" THEN {<<>>} ELSE IF kind = "differ" THEN {<<>>, <<"a">>, <<"c">>} ELSE Ellipses)
Next == /\ Len(t) < Limit(kind)
        /\ \E c \in Alphabet(kind) : t' = Append(t, c)
        /\ UNCHANGED <<kind, e, w>>
Spec == Init /\ [][Next]_vars

Apply(F(_, _, _)) == F(t, e, w)
InvElide ==
  kind \in {"shorten", "differ"} =>
    /\ LET r == ElideStartRef(t, e, w) IN ShortenOK("start", t, e, w, r[1], r[2])
    /\ LET r == ElideEndRef(t, e, w) IN ShortenOK("end", t, e, w, r[1], r[2])
InvTruncate ==
  kind = "shorten" =>
    /\ LET r == TruncStartRef(t, e, w) IN ShortenOK("start", t, e, w, r[1], r[2])
    /\ LET r == TruncEndRef(t, e, w) IN ShortenOK("end", t, e, w, r[1], r[2])
InvPad ==
  (kind = "shorten" /\ e = <<>>) => \A k \in {"start", "end", "center"} : PadOK(k, t, w, PadRef(k, t, w))
InvWrap == kind = "wrap" => WrapOK(t, w, WrapRef(t, w))
(* the model of the string-level width agrees with the per-character sum on  *)
(* the judged classes                                                        *)
InvMeasures == kind \in {"shorten", "wrap"} => ~MeasuresDiffer(t) /\ ~MeasuresDiffer(e)

EmitInv == Emit => PrintT(<<"REPLAY", ToJson([kind |-> kind, t |-> t, e |-> e, w |-> w])>>)
=============================================================================
