SPECIFICATION Spec
CONSTANTS
  MaxConflicted = 1
  Bug = "none"
INVARIANTS InvRefMerge InvFixpoint
CHECK_DEADLOCK FALSE
