SPECIFICATION MCSpec
CONSTANTS
  Repos = {"r1", "r2", "r3"}
  NumIds = 5
  MaxSteps = 6
  Emit = FALSE
  Bias = 0
  Bug = "copy_shares_config"
INVARIANTS InvNoSharing
VIEW View
CHECK_DEADLOCK FALSE
