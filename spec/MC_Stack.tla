------------------------------ MODULE MC_Stack ------------------------------
(* Design-level check and S->I generator for C09.                           *)
(* A stack is grown commit by commit (Next): commit i starts from the       *)
(* (auto-merged) tree of its parents and changes up to MaxChange paths.     *)
(* When the stack is complete, InvLaws checks the three contracts for every *)
(* applicable command (squash / squash paths / split / absorb on every      *)
(* commit, every path selection) against the reference transcription, and   *)
(* EmitInv prints the stack with its commands for replay through the CLI.   *)
EXTENDS Stack, Json

CONSTANTS Shapes, MaxChange, Bug, Emit, Directed

VARIABLES g, chgs      \* g = [par, tree]; chgs[i] = the paths commit i changed (path -> value)

L3 == <<<<0>>, <<1>>, <<2>>>>
L4 == <<<<0>>, <<1>>, <<2>>, <<3>>>>
L5 == <<<<0>>, <<1>>, <<2>>, <<3>>, <<4>>>>
M4 == <<<<0>>, <<1>>, <<1>>, <<2, 3>>>>
M5 == <<<<0>>, <<1>>, <<1>>, <<2, 3>>, <<4>>>>
ShapesQuick == {L3, M4}
ShapesL3 == {L3}
ShapesAll == {L3, L4, M4}
ShapesDeep == {L5, M5}
ShapesGen == {L3, L4, L5, M4, M5}

(* directed stacks (absorb / squash whose source is a merge commit, with a descendant and the  *)
(* working-copy commit above): M6 = diamond 1 <- {2, 3} <- 4 (merge) <- 5 <- 6                 *)
M6 == <<<<0>>, <<1>>, <<1>>, <<2, 3>>, <<4>>, <<5>>>>
E == <<>>
DirectedStacks == {
  \* the merge deletes what ancestors 1 and 2 introduced; 3 adds something unrelated
  [par |-> M6, chgs |-> <<[a |-> 2], [b |-> 2], [c |-> 2], [a |-> 1, b |-> 1], [c |-> 3], E>>],
  \* the merge modifies what 1 (common ancestor) and 2 (one side) introduced
  [par |-> M6, chgs |-> <<[a |-> 2], [b |-> 2], [c |-> 2], [a |-> 3, b |-> 3], [c |-> 3], E>>],
  \* the merge modifies what each side introduced / last changed
  [par |-> M6, chgs |-> <<[a |-> 2], [b |-> 2], [a |-> 3], [a |-> 2, b |-> 3], [c |-> 3], E>>],
  \* the same with the merge itself on top (working copy = the merge)
  [par |-> M4, chgs |-> <<[a |-> 2], [b |-> 2], [c |-> 2], [a |-> 1, b |-> 1]>>],
  [par |-> M5, chgs |-> <<[a |-> 2, b |-> 2], [b |-> 3], [a |-> 3], [a |-> 1, b |-> 1], [c |-> 2]>>] }

RECURSIVE Build(_, _, _)
Build(par, cs, acc) ==
  IF Len(acc) = Len(par) THEN acc
  ELSE LET i == Len(acc) + 1
           base == ParentTree(par, acc, i)
       IN Build(par, cs, Append(acc, [q \in Paths |-> IF q \in DOMAIN cs[i] THEN <<cs[i][q]>> ELSE base[q]]))

Init == IF Directed
        THEN \E s \in DirectedStacks : g = [par |-> s.par, tree |-> Build(s.par, s.chgs, <<>>)] /\ chgs = s.chgs
        ELSE /\ \E sh \in Shapes : g = [par |-> sh, tree |-> <<>>]
             /\ chgs = <<>>

Done == Len(g.tree) = Len(g.par)

Next ==
  /\ ~Done
  /\ LET i == Len(g.tree) + 1
         base == ParentTree(g.par, g.tree, i)
     IN \E S \in {T \in SUBSET Paths : Cardinality(T) <= MaxChange} :
          \E f \in [S -> ValuesT] :
            /\ \A q \in S : <<f[q]>> # base[q]
            /\ g' = [g EXCEPT !.tree = Append(g.tree, [q \in Paths |-> IF q \in S THEN <<f[q]>> ELSE base[q]])]
            /\ chgs' = Append(chgs, f)

Spec == Init /\ [][Next]_<<g, chgs>>

Cmds == {[k |-> "squash", x |-> x, sel |-> {}] : x \in 1..N(g)}
        \cup {[k |-> kk, x |-> x, sel |-> s] : kk \in {"squashp", "split"}, x \in 1..N(g), s \in (SUBSET Paths) \ {{}}}
        \cup {[k |-> "absorb", x |-> x, sel |-> {}] : x \in 1..N(g)}

Before(c) == IF c.k = "split" THEN Append(g.tree, EmptyTree) ELSE g.tree
Laws(c) ==
  LET r == Run(g, c, Bug) IN
  /\ TopKeptOK(SameTree, Before(c), r.tree, c.x, r.top)
  /\ DescendantsKeptOK(SameTree, g.par, Before(c), r.tree, c.x)
  /\ OnlyBelowOK(SameTree, g.par, Before(c), r.tree, c.x, r.gone \cup (IF c.k = "split" THEN {N(g) + 1} ELSE {}))

InvLaws == Done => \A c \in Cmds : Applicable(g, c) => Laws(c)

Changed(c) == LET r == Run(g, c, Bug) IN {i \in 1..N(g) : i \notin r.gone /\ ~SameTree(r.tree[i], g.tree[i])}
EmitInv ==
  (Emit /\ Done) =>
    PrintT(<<"REPLAY", ToJson([par |-> g.par, chgs |-> chgs,
                               cmds |-> [c \in {d \in Cmds : Applicable(g, d)} |->
                                           [k |-> c.k, x |-> c.x, sel |-> c.sel, changed |-> Changed(c)]]])>>)
=============================================================================
