SPECIFICATION Spec
CONSTANTS
  Digits = {0, 1}
  IdLen = 3
  MaxIds = 4
  Bug = "one_short"
INVARIANTS InvShortest InvShortestAbsent InvTwoLevel
CHECK_DEADLOCK FALSE
