SPECIFICATION Spec
CONSTANTS
  NB = 1
  Par <- MC_Par2
  OtherOnly = {}
  MaxSteps = 5
  MaxTerms = 5
  Emit = "all"
  FillChoices <- MC_Fill0
  Bug = "none"
CONSTRAINT Small
VIEW View
INVARIANTS InvStep InvNoLostUpdate
CHECK_DEADLOCK FALSE
