---------------------------- MODULE MC_Rebase ----------------------------
(* C08: history generator and design-level check of the rebase laws.       *)
(* A behaviour builds a small history commit by commit (ordered parents,   *)
(* merges included; a commit's tree is explicit or, "auto", the merged     *)
(* tree of its parents - which may be conflicted), then picks the commit   *)
(* to rebase and its new parents.  At that point                           *)
(*   - the transcription of rebase (recursive merge of parents + 3-way     *)
(*     tree merge) is checked against the two per-path laws, and           *)
(*   - the behaviour is printed as a REPLAY case for `tree rebase`.        *)
EXTENDS Tree, TLC, Json

CONSTANTS LF, LD, LX, LY,      \* leaf values per path (each contains 0)
          MaxCommits,          \* including the root
          MaxParents,          \* 2 or 3
          Accepts, Emit,
          Bug,                 \* seeded design bug for the negative configs
          ExcludeShortcut      \* TRUE: exempt the known-finding shape (skipped merge) from InvLaws

VARIABLES G,                   \* [par, auto, tree], commit 1 = root
          phase,               \* "build" | "done"
          pick                 \* [c, np]: the commit to rebase and its new parents

vars == <<G, phase, pick>>

TreeSet == {t \in [f : LF, d : LD, x : LX, y : LY] : IsTree(t)}
EmptyTree == [f |-> 0, d |-> 0, x |-> 0, y |-> 0]
N == Len(G.par)

ParentChoices ==
  {<<p>> : p \in 1..N}
  \cup {s \in (1..N) \X (1..N) : s[1] # s[2]}
  \cup (IF MaxParents >= 3
        THEN {s \in (1..N) \X (1..N) \X (1..N) : s[1] # s[2] /\ s[1] # s[3] /\ s[2] # s[3]} ELSE {})

Init == /\ G = [par |-> <<<<>>>>, auto |-> <<FALSE>>, tree |-> <<<<EmptyTree>>>>]
        /\ phase = "build"
        /\ pick = [c |-> 0, np |-> <<>>]

AddCommit ==
  /\ phase = "build" /\ N < MaxCommits
  /\ \E ps \in ParentChoices, t \in TreeSet, a \in BOOLEAN :
        G' = [par  |-> Append(G.par, ps),
              auto |-> Append(G.auto, a),
              tree |-> Append(G.tree, IF a THEN <<EmptyTree>> ELSE <<t>>)]
  /\ UNCHANGED <<phase, pick>>

ChooseRebase ==
  /\ phase = "build" /\ N >= 2
  /\ \E c \in 2..N, np \in ParentChoices :
        /\ \A i \in 1..Len(np) : np[i] \notin Descendants(G.par, c)
        /\ pick' = [c |-> c, np |-> np]
  /\ phase' = "done"
  /\ UNCHANGED G

Next == AddCommit \/ ChooseRebase
Spec == Init /\ [][Next]_vars

(* seeded bugs (anti-vacuity) *)
TheRebase(c, np, acc) ==
  IF Bug = "swap"          \* old and new base exchanged
  THEN RefMerge(<<ParentsTree(G, G.par[c], acc), ParentsTree(G, np, acc), CommitTree(G, c, acc)>>, acc)
  ELSE RefRebase(G, c, np, acc)
TheIdentityRebase(c, acc) ==
  IF Bug = "identity" THEN ParentsTree(G, G.par[c], acc)      \* rebasing in place drops the commit's own changes
  ELSE RefRebase(G, c, G.par[c], acc)
TheRoundTrip(c, np, acc) ==
  IF Bug = "roundtrip" THEN RefRebase(G, c, np, acc)                \* never rebased back
  ELSE RefRoundTrip(G, c, np, acc)

InvLaws ==
  phase = "done" =>
    \A acc \in Accepts :
      \/ RebaseMergeShape(G, pick.c, pick.np, acc)
      \/ (ExcludeShortcut /\ ParentTreesEqualBasesDiffer(G, pick.c, pick.np, acc))
      \/ RebaseLawsVerdict(RefPathValue(CommitTree(G, pick.c, acc), acc),
                           RefPathValue(ParentsTree(G, G.par[pick.c], acc), acc),
                           RefPathValue(ParentsTree(G, pick.np, acc), acc),
                           RefPathValue(TheRebase(pick.c, pick.np, acc), acc), acc) = "ok"

(* rebasing onto the current parents is the identity *)
InvIdentity ==
  phase = "done" => \A acc \in Accepts :
     TheIdentityRebase(pick.c, acc) = CommitTree(G, pick.c, acc)

(* rebasing away and back restores the tree when the changes are disjoint *)
InvRoundTrip ==
  phase = "done" => \A acc \in Accepts :
     LET o  == CommitTree(G, pick.c, acc)
         ob == ParentsTree(G, G.par[pick.c], acc)
         nb == ParentsTree(G, pick.np, acc)
     IN (/\ ~RebaseMergeShape(G, pick.c, pick.np, acc)
         /\ DisjointChanges(RefPathValue(o, acc), RefPathValue(ob, acc), RefPathValue(nb, acc), acc))
        => LET back == TheRoundTrip(pick.c, pick.np, acc) IN
           IF Len(o) = 1 THEN back = o ELSE NormSamePV(RefPathValue(back, acc), RefPathValue(o, acc), acc)

EmitInv ==
  (Emit /\ phase = "done") =>
     PrintT(<<"REPLAY", ToJson([par |-> G.par, auto |-> G.auto, tree |-> G.tree, c |-> pick.c, np |-> pick.np])>>)
=============================================================================
