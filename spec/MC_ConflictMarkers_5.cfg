SPECIFICATION Spec
CONSTANTS
  NumTerms = 5
  MaxLines = 1
  NFull = 2
  NOpen = 1
  UseCrlf = FALSE
  Bug = "none"
INVARIANTS InvRoundTrip InvEditResolved InvMarkerLen
CHECK_DEADLOCK FALSE
