SPECIFICATION Spec
CONSTANTS
  Paths <- StdPaths
  PathOrder <- StdPathOrder
  IgnoreVocab <- StdIgnoreVocab
  Bug = "none"
  MaxSteps = 3
  MaxEditRun = 3
  Acts = {"CheckOut", "Snapshot", "SetSparse"}
  EditPaths <- AllEditPaths
  Contents = {1, 2}
  SymTargets = {"out"}
  RootIgnore = {}
  DirIgnore = {}
  TreeIds = {1, 3, 4, 6, 8, 9, 10, 14, 15, 16, 17, 18}
  SparseIds = {1, 2, 4}
  XP = "ignore"
  Strict = "none"
  Emit = FALSE
INVARIANTS Inv_Contracts Inv_NoStrayMarker Inv_TreeWellFormed Inv_Outside
VIEW View
CHECK_DEADLOCK FALSE
