SPECIFICATION Spec
CONSTANTS
  Paths <- StdPaths
  PathOrder <- StdPathOrder
  IgnoreVocab <- StdIgnoreVocab
  Bug = "none"
  MaxSteps = 3
  MaxEditRun = 3
  Acts = {"CheckOut", "Snapshot", "SetSparse"}
  EditPaths <- AllEditPaths
  Contents = {1, 2}
  SymTargets = {"out"}
  RootIgnore = {}
  DirIgnore = {}
  TreeIds = {1, 2, 3, 4, 5, 6, 7, 8, 9, 10}
  SparseIds = {1, 2, 4}
  XP = "ignore"
  Strict = "none"
  Emit = FALSE
INVARIANTS Inv_Contracts Inv_NoStrayMarker Inv_TreeWellFormed Inv_Outside
VIEW View
CHECK_DEADLOCK FALSE
