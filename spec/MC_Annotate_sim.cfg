SPECIFICATION Spec
CONSTANTS
  MaxCommits = 6
  MaxTokens = 4
  SubDomains = TRUE
  OrderedParents = TRUE
  Bug = "none"
  Emit = TRUE
  RequireMerge = FALSE
INVARIANTS InvWalkMeetsContract InvWalkIsBlame EmitInv
CHECK_DEADLOCK FALSE
