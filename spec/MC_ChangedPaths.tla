-------------------------- MODULE MC_ChangedPaths --------------------------
(* Design-level check of the C22 definition: on every DAG with <= MaxCommits *)
(* commits (ordered parents, octopus merges) and every assignment of values  *)
(* to ONE path, the recursive-merge definition of ChangedPaths obeys the     *)
(* laws any reading of "differs from the merge of its parents" must obey.    *)
(* The domain grows commit by commit (Next).  Bug = "first_parent" seeds the *)
(* realistic defect "merge commits are diffed against their first parent".   *)
EXTENDS ChangedPaths, TLC

CONSTANTS MaxCommits, MaxParents, Values, Bug

VARIABLES pseq, tr
vars == <<pseq, tr>>

G == [c \in 0..Len(pseq) |-> IF c = 0 THEN <<>> ELSE pseq[c]]
Rule == IF Bug = "first_parent" THEN "first_parent" ELSE "ok"
CP(c) == ChangedPathsR(G, tr, 1, c, Rule)
V(c) == Val(tr, 1, c, 1)

(* ordered parent lists without repetition *)
RECURSIVE Perms(_)
Perms(S) == IF S = {} THEN {<<>>} ELSE UNION {{<<x>> \o q : q \in Perms(S \ {x})} : x \in S}
ParentChoices(n) ==
  {<<0>>} \cup UNION {Perms(S) : S \in {T \in SUBSET (1..n) : T # {} /\ Cardinality(T) <= MaxParents}}

Init == pseq = <<>> /\ tr = <<>>
Next ==
  /\ Len(pseq) < MaxCommits
  /\ \E ps \in ParentChoices(Len(pseq)), v \in Values :
       pseq' = Append(pseq, ps) /\ tr' = Append(tr, <<v>>)
Spec == Init /\ [][Next]_vars

N == Len(pseq)
Last == N
ThreeWay(a, b, c) == IF a = c THEN a ELSE IF a = b THEN c ELSE IF c = b THEN a ELSE 0

(* one parent: changed iff the value differs from the parent's *)
InvSingleParent ==
  (N > 0 /\ Len(G[Last]) = 1) => ((1 \in CP(Last)) <=> (V(Last) # V(G[Last][1])))
(* two parents that agree, with a single greatest common ancestor: changed  *)
(* iff the value differs from theirs.  (NOT a law beyond that: with a       *)
(* criss-cross -- two common ancestors -- or an octopus merge jj's          *)
(* flattened recursive merge can cancel agreeing sides against the bases,   *)
(* e.g. 1,2 add the same file, 3 = merge(1,2), 4 = merge(2,1): the merge of *)
(* 3 and 4 is x + absent + x - x - x = absent.  TLC finds this at 5 commits *)
(* when the restriction is dropped; it is how merge_commit_trees behaves    *)
(* (same-change acceptance is not associative), so it is the definition.)   *)
InvAgreeingParents ==
  (N > 0 /\ Len(G[Last]) = 2 /\ V(G[Last][1]) = V(G[Last][2])
     /\ Cardinality(CommonAncestors(G, {G[Last][1]}, {G[Last][2]})) = 1)
     => ((1 \in CP(Last)) <=> (V(Last) # V(G[Last][1])))
(* two parents, one an ancestor of the other: the merge is the descendant *)
InvFastForward ==
  (N > 0 /\ Len(G[Last]) = 2 /\ IsAncestor(G, G[Last][1], G[Last][2]))
     => ((1 \in CP(Last)) <=> (V(Last) # V(G[Last][2])))
(* two unrelated parents with one greatest common ancestor: three-way rule *)
InvThreeWay ==
  (N > 0 /\ Len(G[Last]) = 2) =>
     LET a == G[Last][1]
         c == G[Last][2]
         ca == CommonAncestors(G, {a}, {c})
     IN (Cardinality(ca) = 1 /\ a \notin ca /\ c \notin ca) =>
          LET b == CHOOSE x \in ca : TRUE
              w == ThreeWay(V(a), V(b), V(c))
          IN (1 \in CP(Last)) <=> (w = 0 \/ w # V(Last))
(* the order of the parents does not matter *)
InvParentOrder ==
  (N > 0 /\ Len(G[Last]) = 2) =>
     LET G2 == [G EXCEPT ![Last] = <<G[Last][2], G[Last][1]>>]
     IN ChangedPathsR(G2, tr, 1, Last, Rule) = CP(Last)
=============================================================================
