SPECIFICATION MCSpec
CONSTANTS
  Repos = {"r1", "r2", "r3"}
  NumIds = 5
  MaxSteps = 7
  Emit = FALSE
  Bias = 0
  Bug = "none"
INVARIANTS InvLoadInsideRoot InvBadIdRejected InvNoSharing InvCopyKeepsContent InvMetaPointsToExisting
VIEW View
CHECK_DEADLOCK FALSE
