SPECIFICATION Spec
CONSTANTS
  K = 2
  Kinds = {"commit"}
  Emit = FALSE
  RepLevel = 2
  Bug = "git_author_not_normalised"
INVARIANTS InvCommit
CHECK_DEADLOCK FALSE
