SPECIFICATION Spec
CONSTANTS
  NB = 1
  Par <- MC_Par3
  GitOnly = {3}
  MaxSteps = 5
  MaxTerms = 5
  Emit = "all"
  Bug = "none"
CONSTRAINT Small
VIEW View
INVARIANTS InvStep InvConverge InvIdem
CHECK_DEADLOCK FALSE
