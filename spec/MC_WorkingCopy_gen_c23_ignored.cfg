SPECIFICATION Spec
CONSTANTS
  Paths <- StdPaths
  PathOrder <- StdPathOrder
  IgnoreVocab <- StdIgnoreVocab
  Bug = "none"
  MaxSteps = 8
  MaxEditRun = 3
  Acts = {"Write", "Chmod", "Delete", "Mkfifo", "FileToDir", "DirToFile", "RmTree", "Snapshot", "CheckOut"}
  EditPaths <- InsideIgnoredPaths
  Contents = {1, 2}
  SymTargets = {"out", "f", "out/x"}
  RootIgnore = {1, 2, 3, 4, 7}
  DirIgnore = {3, 5, 6}
  TreeIds = {9, 11, 12}
  SparseIds = {1, 2, 3, 4, 5, 6}
  XP = "respect"
  Strict = "none"
  Emit = TRUE
INVARIANTS EmitInv
CHECK_DEADLOCK FALSE
