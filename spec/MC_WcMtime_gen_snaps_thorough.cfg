SPECIFICATION Spec
CONSTANTS
  MaxClock = 2
  MaxSnaps = 3
  MaxCheckouts = 1
  MaxEdits = 1
  Variant = "lt"
  Restores = {}
  Emit = TRUE
INVARIANTS Inv_Seen EmitInv
CHECK_DEADLOCK FALSE
