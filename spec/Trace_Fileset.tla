---------------------------- MODULE Trace_Fileset ----------------------------
(* Judge for C31: what the real fileset::parse + to_matcher selects for     *)
(* each TLC-generated expression and cwd.  The matcher's visit() answers    *)
(* are judged against the C30 pruning contract as well (the matchers built  *)
(* by to_matcher are unions of multi-pattern leaf matchers).                *)
EXTENDS Fileset, Json, IOUtils, TLC

Rec == ndJsonDeserialize(IOEnv.TRACE)

VARIABLE l

Verdict(r) ==
  IF r.op = "fileset" THEN
       LET v == FilesetVerdict(r.e, r.cwd, r.out) IN
       IF v # "ok" THEN v
       ELSE IF r.out.ok /\ \E i \in 1..Len(r.out.visits) :
                 ~VisitOKs(Range(r.out.matched), r.out.visits[i].d, r.out.visits[i]) THEN "VisitOK"
       ELSE "ok"
  ELSE IF r.op = "panic" THEN "Panic"
  ELSE "harness:unknown-op"

Init == l = 1
Next ==
  \/ /\ l <= Len(Rec)
     /\ LET v == Verdict(Rec[l]) IN (IF v = "ok" THEN TRUE ELSE PrintT(<<"BAD", l, v>>))
     /\ l' = l + 1
  \/ /\ l = Len(Rec) + 1
     /\ PrintT(<<"JUDGED", Len(Rec)>>)
     /\ l' = l + 1
Spec == Init /\ [][Next]_l
=============================================================================
