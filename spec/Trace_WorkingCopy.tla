-------------------------- MODULE Trace_WorkingCopy --------------------------
(* Judge for C23 / C24 / C25 / C27.  One record = one script (a sequence of  *)
(* model actions: user edits, Snapshot, CheckOut, SetSparse) executed on a   *)
(* REAL LocalWorkingCopy, with the projected real state after every action:  *)
(*   steps[i] : the action and its arguments                                 *)
(*   obs[i]   : disk / tree / fs (values of the universe paths, in           *)
(*              PathOrder), out (sentinel directory outside the workspace),  *)
(*              sparse, stats, err, extra (entries outside the universe)     *)
(* The scripts come from TLC (S->I: behaviours of MC_WorkingCopy) or from    *)
(* the harness's seeded driver (I->S).  The judge follows the                *)
(* IMPLEMENTATION's state step by step and evaluates, on every transition,   *)
(* the contracts of WorkingCopy (violations) and the difference to the       *)
(* reference transcription (divergence, never a violation).                  *)
EXTENDS WorkingCopy, Json, IOUtils, TLC

Rec == ndJsonDeserialize(IOEnv.TRACE)

VARIABLE l

Fn(seq) == [p \in Paths |-> seq[Pos(p)]]
SetOf(seq) == {seq[i] : i \in 1..Len(seq)}
OutFn(o) == [q \in OutPaths |-> o[CHOOSE i \in 1..Len(OutOrder) : OutOrder[i] = q]]
ObsState(o, xp) ==
  [disk |-> Fn(o.disk), out |-> OutFn(o.out), tree |-> Fn(o.tree), fs |-> Fn(o.fs),
   sparse |-> SetOf(o.sparse), xp |-> xp, stats |-> o.stats, err |-> o.err]

IsEdit(a) == a \in {"Write", "Chmod", "Symlink", "Delete", "Mkfifo", "FileToDir", "RmTree", "DirToFile", "DirToSymlink"}
EditEnabled(s, e) ==
  CASE e.a = "Write" -> CanWrite(s, e.p, e.c)
    [] e.a = "Chmod" -> CanChmod(s, e.p)
    [] e.a = "Symlink" -> CanSymlink(s, e.p, e.t)
    [] e.a = "Delete" -> CanDelete(s, e.p)
    [] e.a = "Mkfifo" -> CanMkfifo(s, e.p)
    [] e.a = "FileToDir" -> CanFileToDir(s, e.p)
    [] e.a = "DirToSymlink" -> CanDirToSymlink(s, e.p, e.t)
    [] e.a = "RmTree" -> CanRmTree(s, e.p)
    [] e.a = "DirToFile" -> CanDirToFile(s, e.p, e.c)
EditDo(s, e) ==
  CASE e.a = "Write" -> DoWrite(s, e.p, e.c)
    [] e.a = "Chmod" -> DoChmod(s, e.p)
    [] e.a = "Symlink" -> DoSymlink(s, e.p, e.t)
    [] e.a = "Delete" -> DoDelete(s, e.p)
    [] e.a = "Mkfifo" -> DoMkfifo(s, e.p)
    [] e.a = "FileToDir" -> DoFileToDir(s, e.p)
    [] e.a = "DirToSymlink" -> DoDirToSymlink(s, e.p, e.t)
    [] e.a = "RmTree" -> DoRmTree(s, e.p)
    [] e.a = "DirToFile" -> DoDirToFile(s, e.p, e.c)

(* what the reference transcription expects after the step *)
Expected(s, e) ==
  IF IsEdit(e.a) THEN EditDo(s, e)
  ELSE IF e.a = "Snapshot" THEN DoSnapshot(s)
  ELSE IF e.a = "CheckOut" THEN DoCheckOut(s, Fn(e.tree))
  ELSE DoSetSparse(s, SetOf(e.sp))

SameJjState(a, b) == a.tree = b.tree /\ a.fs = b.fs /\ a.sparse = b.sparse
Same(a, b, withStats) ==
  /\ a.disk = b.disk /\ a.out = b.out /\ SameJjState(a, b) /\ a.err = b.err
  /\ (withStats => a.stats = b.stats)

(* verdict of one observed transition s --e--> t (o is the raw observation) *)
StepVerdict(s, e, t, o) ==
  IF e.a \notin {"Snapshot", "CheckOut", "SetSparse"} /\ ~IsEdit(e.a) THEN "harness:unknown-action"
  ELSE IF ~WellFormed(t.disk) THEN "harness:disk-not-well-formed"
  ELSE IF IsEdit(e.a) THEN
       (IF ~EditEnabled(s, e) THEN "harness:edit-not-enabled"
        ELSE IF t.disk # EditDo(s, e).disk \/ t.out # s.out THEN "harness:edit-semantics"
        ELSE IF ~SameJjState(s, t) THEN "harness:edit-changed-jj-state"
        ELSE "ok")
  ELSE IF o.extra # 0 THEN "NoStrayEntries:" \o e.a
  ELSE IF e.a = "Snapshot" THEN SnapshotContract(s, t)
  ELSE IF e.a = "CheckOut" THEN CheckOutContract(s, Fn(e.tree), t)
  ELSE SparseContract(s, SetOf(e.sp), t)

(* fold along the script, following the implementation's state; a failing verdict *)
(* carries the (1-based) index of the step: "SnapshotOK@5"                       *)
RECURSIVE Run(_, _, _)
Run(r, i, acc) ==
  IF i > Len(r.steps) \/ acc.bad # "ok" THEN acc
  ELSE LET e == r.steps[i]
           o == r.obs[i]
           t == ObsState(o, r.xp)
           v == StepVerdict(acc.s, e, t, o)
           d == IF v = "ok" /\ ~IsEdit(e.a) THEN ~Same(Expected(acc.s, e), t, e.a # "Snapshot") ELSE FALSE
       IN Run(r, i + 1, [s |-> t, bad |-> IF v = "ok" THEN "ok" ELSE v \o "@" \o ToString(i),
                         div |-> acc.div \/ d])

UniverseOK(r) == r.paths = PathOrder /\ r.vocab = IgnoreVocab

Judge(r) ==
  IF r.op = "universe" THEN [bad |-> IF UniverseOK(r) THEN "ok" ELSE "harness:universe", div |-> FALSE]
  ELSE IF r.op # "wc" THEN [bad |-> "harness:unknown-op", div |-> FALSE]
  ELSE IF Len(r.steps) # Len(r.obs) \/ r.xp \notin {"respect", "ignore"} THEN [bad |-> "harness:shape", div |-> FALSE]
  ELSE LET x == Run(r, 1, [s |-> InitState(r.xp), bad |-> "ok", div |-> FALSE])
       IN [bad |-> x.bad, div |-> x.div]

Init == l = 1
Next ==
  \/ /\ l <= Len(Rec)
     /\ LET v == Judge(Rec[l]) IN
          /\ (IF v.bad = "ok" THEN TRUE ELSE PrintT(<<"BAD", l, v.bad>>))
          /\ (IF v.div THEN PrintT(<<"DIVERGES", l>>) ELSE TRUE)
     /\ l' = l + 1
  \/ /\ l = Len(Rec) + 1
     /\ PrintT(<<"JUDGED", Len(Rec)>>)
     /\ l' = l + 1
Spec == Init /\ [][Next]_l
=============================================================================
