SPECIFICATION Spec
CONSTANTS
  MaxLen = 3
  MaxPair = 2
  Bug = "none"
  Emit = TRUE
INVARIANTS InvRoundTrip InvSymbol InvPair EmitInv
CHECK_DEADLOCK FALSE
