----------------------------- MODULE Matchers -----------------------------
(* Path matchers of jj (lib/src/matchers.rs) and the C30 contract on the   *)
(* directory-pruning answers of Matcher::visit.                            *)
(*                                                                         *)
(* Vocabulary.  A path is a non-empty sequence of components; a directory  *)
(* is a (possibly empty = root) sequence of components.  Components are    *)
(* abstract tokens; the glob sub-language is given by the table SegMatch   *)
(* over those tokens.  A matcher expression is a record                    *)
(*   [k |-> "all"] [k |-> "none"]                                          *)
(*   [k |-> "files",  ps |-> <<path, ...>>]         FilesMatcher           *)
(*   [k |-> "prefix", ps |-> <<path-or-root, ...>>] PrefixMatcher          *)
(*   [k |-> "glob", pm |-> BOOLEAN, gs |-> <<[dir, pat], ...>>]            *)
(*        GlobsMatcher; pm = matches_prefix_paths; pat is a sequence of    *)
(*        segment patterns, "**" being the recursive wildcard              *)
(*   [k |-> "union"|"inter"|"diff", a |-> m1, b |-> m2]                    *)
(* Sequences (not sets) are used inside expressions so that an expression  *)
(* survives the JSON round trip to the harness unchanged.                  *)
(*                                                                         *)
(* CONTRACT: MatchesOK, VisitOK.  REFERENCE TRANSCRIPTION: RefVisit (the   *)
(* algorithms of matchers.rs), model checked against VisitOK in MC_Matchers*)
EXTENDS Naturals, Sequences, FiniteSets

CONSTANTS Comps,        \* component tokens of the path universe
          MaxDepth      \* longest path of the universe

Range(s) == {s[i] : i \in 1..Len(s)}

PathsUpTo(n) == UNION {[1..k -> Comps] : k \in 1..n}
Universe == PathsUpTo(MaxDepth)
Root == <<>>
Dirs == {Root} \cup PathsUpTo(MaxDepth - 1)

IsPrefix(d, p) == Len(d) <= Len(p) /\ \A i \in 1..Len(d) : p[i] = d[i]
StrictlyBelow(p, d) == Len(d) < Len(p) /\ IsPrefix(d, p)
Rest(p, n) == SubSeq(p, n + 1, Len(p))
Below(d) == {p \in Universe : StrictlyBelow(p, d)}

---------------------------------------------------------------------------
(* The glob sub-language over component tokens (globset with               *)
(* literal_separator(true)): a literal token, "*", "a*", "?" and the       *)
(* whole-component "**".  Fold is ASCII case folding of a token.           *)
SingleChar == {"a", "A", "b"}
Fold(c) == IF c = "A" THEN "a" ELSE c
SegMatch(seg, c) ==
  IF seg = "*" THEN TRUE
  ELSE IF seg = "a*" THEN c \in {"a", "ab"}
  ELSE IF seg = "?" THEN c \in SingleChar
  ELSE c = seg
SegMatchI(seg, c) == SegMatch(Fold(seg), Fold(c))
Seg(ic, seg, c) == IF ic THEN SegMatchI(seg, c) ELSE SegMatch(seg, c)

(* pat[i..] matches t[j..] as a whole.  "**": alone matches anything; as   *)
(* the last segment after a "/" it needs at least one more component; in   *)
(* front or in the middle it stands for zero or more components.           *)
RECURSIVE GM(_, _, _, _, _)
GM(ic, pat, i, t, j) ==
  IF i > Len(pat) THEN j > Len(t)
  ELSE IF pat[i] = "**" THEN
         IF i = Len(pat) THEN (i = 1 \/ j <= Len(t))
         ELSE \E k \in j..(Len(t) + 1) : GM(ic, pat, i + 1, t, k)
  ELSE j <= Len(t) /\ Seg(ic, pat[i], t[j]) /\ GM(ic, pat, i + 1, t, j + 1)
GlobMatch(ic, pat, t) == GM(ic, pat, 1, t, 1)
(* A prefix glob matches a path when it matches a leading run of its       *)
(* components (the path itself or one of its ancestors below dir).         *)
PrefixGlobMatch(ic, pat, t) == \E k \in 1..Len(t) : GlobMatch(ic, pat, SubSeq(t, 1, k))

IcOf(g) == IF "ic" \in DOMAIN g THEN g.ic ELSE FALSE

---------------------------------------------------------------------------
(* Meaning of a matcher expression.                                        *)
RECURSIVE Matches(_, _)
Matches(m, p) ==
  CASE m.k = "all"    -> TRUE
    [] m.k = "none"   -> FALSE
    [] m.k = "files"  -> \E i \in 1..Len(m.ps) : m.ps[i] = p
    [] m.k = "prefix" -> \E i \in 1..Len(m.ps) : IsPrefix(m.ps[i], p)
    [] m.k = "glob"   -> \E i \in 1..Len(m.gs) :
                            LET g == m.gs[i] IN
                              /\ StrictlyBelow(p, g.dir)
                              /\ IF m.pm THEN PrefixGlobMatch(IcOf(g), g.pat, Rest(p, Len(g.dir)))
                                         ELSE GlobMatch(IcOf(g), g.pat, Rest(p, Len(g.dir)))
    [] m.k = "union"  -> Matches(m.a, p) \/ Matches(m.b, p)
    [] m.k = "inter"  -> Matches(m.a, p) /\ Matches(m.b, p)
    [] m.k = "diff"   -> Matches(m.a, p) /\ ~Matches(m.b, p)
MatchSet(m) == {p \in Universe : Matches(m, p)}

---------------------------------------------------------------------------
(* CONTRACTS (C30).  A visit answer is                                     *)
(*   [t |-> "all"] | [t |-> "nothing"] |                                   *)
(*   [t |-> "spec", da |-> BOOLEAN, dirs |-> <<c,...>>, fa |-> BOOLEAN,    *)
(*    files |-> <<c,...>>]    (da/fa = VisitDirs::All / VisitFiles::All)   *)
(* ms = MatchSet(m): the contract only depends on the meaning of m *)
VisitOKs(ms, d, v) ==
  LET below == {p \in ms : StrictlyBelow(p, d)} IN
  CASE v.t = "nothing" -> below = {}
    [] v.t = "all"     -> below = Below(d)
    [] v.t = "spec"    ->
         \A p \in below :
            LET c == p[Len(d) + 1] IN
              IF Len(p) = Len(d) + 1 THEN v.fa \/ c \in Range(v.files)
                                     ELSE v.da \/ c \in Range(v.dirs)
VisitOK(m, d, v) == VisitOKs(MatchSet(m), d, v)
(* the code's matches() is the meaning of the expression *)
MatchesOK(m, matched) == Range(matched) = MatchSet(m)

(* which obligation a visit answer would break (for diagnostics/signature) *)
VisitKind(v) == v.t

---------------------------------------------------------------------------
(* REFERENCE TRANSCRIPTION of Matcher::visit.  Sets are used for dirs and  *)
(* files here; "ALL" is represented by da/fa.                              *)
VNothing == [t |-> "nothing"]
VAll == [t |-> "all"]
VSome == [t |-> "spec", da |-> TRUE, ds |-> {}, fa |-> TRUE, fs |-> {}]
VSets(ds, fs) == IF ds = {} /\ fs = {} THEN VNothing
                 ELSE [t |-> "spec", da |-> FALSE, ds |-> ds, fa |-> FALSE, fs |-> fs]

FilesVisit(ps, d) ==
  IF ~\E i \in 1..Len(ps) : IsPrefix(d, ps[i]) THEN VNothing      \* tree.get(dir) = None
  ELSE VSets({c \in Comps : \E i \in 1..Len(ps) : StrictlyBelow(ps[i], d \o <<c>>)},
             {c \in Comps : \E i \in 1..Len(ps) : ps[i] = d \o <<c>>})

PrefixVisit(ps, d) ==
  IF \E i \in 1..Len(ps) : IsPrefix(ps[i], d) THEN VAll
  ELSE IF \E i \in 1..Len(ps) : IsPrefix(d, ps[i])
       THEN VSets({c \in Comps : \E i \in 1..Len(ps) : IsPrefix(d \o <<c>>, ps[i])},
                  {c \in Comps : \E i \in 1..Len(ps) : ps[i] = d \o <<c>>})
       ELSE VNothing

(* regex is_match of the prefix regex on a tail that may be empty *)
EmptyMatch(pat) == Len(pat) = 1 /\ pat[1] \in {"*", "**"}
PrefixIsMatch(ic, pat, t) == IF t = <<>> THEN EmptyMatch(pat) ELSE PrefixGlobMatch(ic, pat, t)

(* walk_to(dir): the ancestors a of d (root first) that are nodes of the   *)
(* pattern tree, i.e. prefixes of some pattern dir.                        *)
RECURSIVE GlobsWalk(_, _, _, _, _)
GlobsWalk(gs, pm, d, n, max) ==
  LET a == SubSeq(d, 1, n)
      node == \E i \in 1..Len(gs) : IsPrefix(a, gs[i].dir)
      here == {i \in 1..Len(gs) : gs[i].dir = a}
      tail == Rest(d, n)
  IN IF n > Len(d) \/ ~node THEN max
     ELSE IF here # {} /\ pm /\ \E i \in here : PrefixIsMatch(IcOf(gs[i]), gs[i].pat, tail) THEN VAll
     ELSE LET max2 == IF here # {} THEN VSome ELSE max IN
          IF here # {} /\ ~pm THEN max2                       \* break
          ELSE IF n = Len(d) /\ max2 = VNothing
               THEN VSets({c \in Comps : \E i \in 1..Len(gs) : IsPrefix(d \o <<c>>, gs[i].dir)}, {})
               ELSE GlobsWalk(gs, pm, d, n + 1, max2)
GlobsVisit(gs, pm, d) == GlobsWalk(gs, pm, d, 0, VNothing)

UnionVisit(v1, v2) ==
  IF v1.t = "all" THEN VAll
  ELSE IF v1.t = "nothing" THEN v2
  ELSE IF v2.t = "all" THEN VAll
  ELSE IF v2.t = "nothing" THEN v1
  ELSE [t |-> "spec", da |-> v1.da \/ v2.da, ds |-> v1.ds \cup v2.ds,
                      fa |-> v1.fa \/ v2.fa, fs |-> v1.fs \cup v2.fs]
DiffVisit(wanted, unwanted) ==
  IF unwanted.t = "all" THEN VNothing
  ELSE IF unwanted.t = "nothing" THEN wanted
  ELSE IF wanted.t = "all" THEN VSome ELSE wanted
InterVisit(v1, v2) ==
  IF v1.t = "all" THEN v2
  ELSE IF v1.t = "nothing" THEN VNothing
  ELSE IF v2.t = "all" THEN v1
  ELSE IF v2.t = "nothing" THEN VNothing
  ELSE LET da == v1.da /\ v2.da
           ds == IF v1.da THEN v2.ds ELSE IF v2.da THEN v1.ds ELSE v1.ds \cap v2.ds
           fa == v1.fa /\ v2.fa
           fs == IF v1.fa THEN v2.fs ELSE IF v2.fa THEN v1.fs ELSE v1.fs \cap v2.fs
       IN IF ~da /\ ~fa /\ ds = {} /\ fs = {} THEN VNothing
          ELSE [t |-> "spec", da |-> da, ds |-> ds, fa |-> fa, fs |-> fs]

RECURSIVE RefVisit(_, _)
RefVisit(m, d) ==
  CASE m.k = "all"    -> VAll
    [] m.k = "none"   -> VNothing
    [] m.k = "files"  -> FilesVisit(m.ps, d)
    [] m.k = "prefix" -> PrefixVisit(m.ps, d)
    [] m.k = "glob"   -> GlobsVisit(m.gs, m.pm, d)
    [] m.k = "union"  -> UnionVisit(RefVisit(m.a, d), RefVisit(m.b, d))
    [] m.k = "inter"  -> InterVisit(RefVisit(m.a, d), RefVisit(m.b, d))
    [] m.k = "diff"   -> DiffVisit(RefVisit(m.a, d), RefVisit(m.b, d))

(* the reference answer in the wire form of the contract (sets as any      *)
(* enumeration): VisitOK only looks at Range(dirs)/Range(files), so the    *)
(* set form is wrapped by these accessors instead.                         *)
VisitSetOKs(ms, d, v) ==
  LET below == {p \in ms : StrictlyBelow(p, d)} IN
  CASE v.t = "nothing" -> below = {}
    [] v.t = "all"     -> below = Below(d)
    [] v.t = "spec"    ->
         \A p \in below :
            LET c == p[Len(d) + 1] IN
              IF Len(p) = Len(d) + 1 THEN v.fa \/ c \in v.fs ELSE v.da \/ c \in v.ds
VisitSetOK(m, d, v) == VisitSetOKs(MatchSet(m), d, v)
(* same answer, wire form vs set form *)
SameVisit(w, v) ==
  /\ w.t = v.t
  /\ w.t = "spec" => /\ w.da = v.da /\ w.fa = v.fa
                     /\ (w.da \/ Range(w.dirs) = v.ds)
                     /\ (w.fa \/ Range(w.files) = v.fs)
===========================================================================
