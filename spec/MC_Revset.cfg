SPECIFICATION Spec
CONSTANTS
  Shapes = {1, 2}
  MaxDepth = 2
  Small = TRUE
  Focus = FALSE
  Bug = "none"
INVARIANTS InvWithinAll InvDifference InvRange InvFoldGeneration InvFoldDescendants InvHeadsRoots InvNotAncestors EmitInv
CHECK_DEADLOCK FALSE
