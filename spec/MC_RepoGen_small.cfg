SPECIFICATION GenSpec
CONSTANTS
  MaxCommits = 7
  MaxOps = 3
  MaxActs = 1
  EmptyPolicies = {"keep", "all"}
  AllowFinding = FALSE
  Bug = "none"
  GenOps = 3
INVARIANTS EmitInv
VIEW GenView
CHECK_DEADLOCK FALSE
