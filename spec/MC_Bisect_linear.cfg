SPECIFICATION Spec
CONSTANTS
  MaxNodes = 9
  Shape = "linear"
  SubRanges = TRUE
  WithSkips = FALSE
  Engine = "ref"
  ExcludeFinding = TRUE
  Bug = "none"
  Emit = TRUE
INVARIANTS InvNoRepeat InvVerdict InvProgress EmitInv
CHECK_DEADLOCK FALSE
