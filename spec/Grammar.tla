------------------------------- MODULE Grammar -------------------------------
(* C36 (restricted scope, DESIGN 5): inputs for the revset, fileset and     *)
(* template parsers that are derived from a model - bounded token           *)
(* sentences, grammar derivations, nesting generators - and ALIAS EXPANSION *)
(* (lib/src/dsl_util.rs: AliasExpander::expand_defn, fold_identifier,       *)
(* fold_function_call) as a state machine over an alias graph.              *)
(*                                                                          *)
(* Contract: parsing any of these inputs ends in Ok or Err - never a panic, *)
(* an abort or a stack overflow (slowness is not forbidden: a timeout is    *)
(* recorded, not judged); alias expansion terminates and fails exactly when *)
(* the model's expansion fails.                                             *)
EXTENDS Naturals, Sequences, FiniteSets

Range(s) == {s[i] : i \in 1..Len(s)}

---------------------------------------------------------------------------
(* 1. Token sentences.  Token NAMES; the text of a token depends on the    *)
(* language (harness/jjconf/src/bin/paths/grammar_text.rs): identifiers,   *)
(* brackets, a prefix / postfix / two infix operators, @ and :, string     *)
(* literals (plain, unterminated, with escapes, with an invalid escape,    *)
(* raw, unterminated raw), a unicode identifier character, a unicode       *)
(* symbol, space, dot, an integer.                                         *)
Tokens == {"x", "f", "lp", "rp", "comma", "pre", "post", "inf", "inf2", "at", "colon",
           "str", "ustr", "escstr", "badesc", "raw", "uraw", "uni", "usym", "sp", "dot", "int"}
Langs == {"revset", "fileset", "template"}

---------------------------------------------------------------------------
(* 2. A token-level grammar common to the three languages: E expression,   *)
(* A argument list.  langs = the languages whose parser accepts every      *)
(* sentence derived with the production (fileset resolves names while      *)
(* parsing, so calls of the unknown function f are not claimed for it).    *)
Prod(l, r, ls) == [lhs |-> l, rhs |-> r, langs |-> ls]
Productions == {
  Prod("E", <<"x">>, Langs),
  Prod("E", <<"str">>, Langs),
  Prod("E", <<"raw">>, Langs),
  Prod("E", <<"int">>, Langs),
  Prod("E", <<"lp", "E", "rp">>, Langs),
  Prod("E", <<"f", "lp", "A", "rp">>, {"revset", "template"}),
  Prod("E", <<"pre", "E">>, Langs),
  Prod("E", <<"E", "post">>, {"revset", "template"}),
  Prod("E", <<"E", "inf", "E">>, Langs),
  Prod("E", <<"E", "inf2", "E">>, {"fileset", "template"}),
  Prod("E", <<"x", "at", "x">>, {"revset"}),
  Prod("A", <<>>, Langs),
  Prod("A", <<"E">>, Langs),
  Prod("A", <<"E", "comma", "E">>, Langs) }
NonTerminals == {"E", "A"}
(* fewest tokens a sentential form can still produce *)
RECURSIVE MinLen(_)
MinLen(form) == IF form = <<>> THEN 0
                ELSE (IF form[1] = "A" THEN 0 ELSE 1) + MinLen(SubSeq(form, 2, Len(form)))
IsSentence(form) == \A i \in 1..Len(form) : form[i] \notin NonTerminals
LeftmostNT(form) == CHOOSE i \in 1..Len(form) : form[i] \in NonTerminals /\ \A j \in 1..(i - 1) : form[j] \notin NonTerminals
Rewrite(form, i, rhs) == SubSeq(form, 1, i - 1) \o rhs \o SubSeq(form, i + 1, Len(form))

---------------------------------------------------------------------------
(* 3. Nesting generators Nest(kind, n): n prefix operators before x, n     *)
(* nested calls f(f(..x..)), n nested parentheses, n postfix operators, a  *)
(* chain of n infix operators (two operators), a call with n+1 arguments,  *)
(* a string literal of n escapes.  Nested parentheses and calls take time  *)
(* exponential in n (each level is parsed three times by the ordered       *)
(* choice of the range rule), so they are bounded by 10 - except the two   *)
(* depths at which the first descent already exhausts the stack.           *)
NestKinds == {"prefix", "call", "paren", "postfix", "infix", "infix2", "list", "string"}
NestDepths(kind) ==
  CASE kind = "paren" -> {1, 2, 5, 8, 10}
    [] kind = "call"  -> {1, 2, 5, 8, 10, 10000, 100000}
    [] OTHER          -> {1, 10, 100, 1000, 3000, 10000, 100000}
DeepNest == 5000      \* the known stack-overflow finding is "nesting depth >= 5000"

---------------------------------------------------------------------------
(* 4. Alias expansion.  Declarations: the symbol aliases "A" and "x" and   *)
(* the one-parameter function alias "F(x)" (inside its body x is the       *)
(* parameter and shadows the symbol alias x).  A definition body / an      *)
(* expression is                                                           *)
(*   [k |-> "id", n |-> name]      name in {"A", "x", "k"} (k: no alias)   *)
(*   [k |-> "call", f |-> "F", args |-> <<node, ...>>]                     *)
(*   [k |-> "or", a |-> node, b |-> node]                                  *)
(*   [k |-> "bad"]                 text that does not parse                *)
(* defs is a sequence of [decl, body], at most one per declaration.        *)
Decls == {"A", "x", "F(x)"}
Defined(defs, d) == \E i \in 1..Len(defs) : defs[i].decl = d
BodyOf(defs, d) == defs[CHOOSE i \in 1..Len(defs) : defs[i].decl = d].body
ParamsOf(d) == IF d = "F(x)" THEN {"x"} ELSE {}

(* REFERENCE: the outcome of expand_aliases as a function (depth-first,    *)
(* left to right, first error wins): "ok", "recursive", "args", "parse".   *)
RECURSIVE Exp(_, _, _, _), ExpSeq(_, _, _, _), Enter(_, _, _)
Enter(defs, d, stack) ==
  IF d \in stack THEN "recursive"
  ELSE Exp(defs, BodyOf(defs, d), ParamsOf(d), stack \cup {d})
ExpSeq(defs, nodes, locals, stack) ==
  IF nodes = <<>> THEN "ok"
  ELSE LET r == Exp(defs, nodes[1], locals, stack) IN
         IF r # "ok" THEN r ELSE ExpSeq(defs, SubSeq(nodes, 2, Len(nodes)), locals, stack)
Exp(defs, node, locals, stack) ==
  CASE node.k = "bad" -> "parse"
    [] node.k = "id" ->
         IF node.n \in locals THEN "ok"                    \* parameter: substituted, not re-expanded
         ELSE IF node.n \in {"A", "x"} /\ Defined(defs, node.n) THEN Enter(defs, node.n, stack)
         ELSE "ok"
    [] node.k = "or" -> ExpSeq(defs, <<node.a, node.b>>, locals, stack)
    [] node.k = "call" ->
         IF Defined(defs, "F(x)") THEN
              IF Len(node.args) # 1 THEN "args"            \* arity is checked before the arguments
              ELSE LET r == ExpSeq(defs, node.args, locals, stack) IN
                     IF r # "ok" THEN r ELSE Enter(defs, "F(x)", stack)
         ELSE ExpSeq(defs, node.args, locals, stack)
RefOutcome(defs, expr) == Exp(defs, expr, {}, {})

(* The static view: which declarations an expression refers to (a          *)
(* parameter shadows the symbol alias of the same name), and what is       *)
(* reachable through definitions.                                          *)
RECURSIVE Refs(_, _, _)
Refs(defs, node, locals) ==
  CASE node.k = "bad" -> {}
    [] node.k = "id" -> IF node.n \notin locals /\ node.n \in {"A", "x"} /\ Defined(defs, node.n) THEN {node.n} ELSE {}
    [] node.k = "or" -> Refs(defs, node.a, locals) \cup Refs(defs, node.b, locals)
    [] node.k = "call" ->
         (IF Defined(defs, "F(x)") THEN {"F(x)"} ELSE {})
         \cup UNION {Refs(defs, node.args[i], locals) : i \in 1..Len(node.args)}
DeclRefs(defs, d) == Refs(defs, BodyOf(defs, d), ParamsOf(d))
RECURSIVE Closure(_, _)
Closure(defs, S) ==
  LET T == S \cup UNION {DeclRefs(defs, d) : d \in S} IN IF T = S THEN S ELSE Closure(defs, T)
Reach(defs, expr) == Closure(defs, Refs(defs, expr, {}))
CycleReachable(defs, expr) == \E d \in Reach(defs, expr) : d \in Closure(defs, DeclRefs(defs, d))
(* some reachable text fails locally: a bad body, or a call of F with the  *)
(* wrong number of arguments                                               *)
RECURSIVE LocalError(_, _)
LocalError(defs, node) ==
  CASE node.k = "bad" -> TRUE
    [] node.k = "id" -> FALSE
    [] node.k = "or" -> LocalError(defs, node.a) \/ LocalError(defs, node.b)
    [] node.k = "call" -> (Defined(defs, "F(x)") /\ Len(node.args) # 1)
                          \/ \E i \in 1..Len(node.args) : LocalError(defs, node.args[i])
ErrorReachable(defs, expr) ==
  LocalError(defs, expr) \/ \E d \in Reach(defs, expr) : LocalError(defs, BodyOf(defs, d))

---------------------------------------------------------------------------
(* CONTRACTS (C36) on observed outcomes                                    *)
(*  outcome: "ok" | "err" | "timeout" | "panic" | "signal" | "exit"        *)
(* A timeout is not judged for sentences and nesting (slowness is not       *)
(* forbidden); for an alias case - a handful of tokens - it is a failure    *)
(* to terminate (Trace_Grammar: AliasTerminates).                           *)
NoCrash(outcome) == outcome \in {"ok", "err", "timeout"}
(* a batch of plain sentences: the set of outcome labels seen *)
BatchOK(outcomes) == DOMAIN outcomes \subseteq {"ok", "err"}
(* alias expansion: fails exactly when the model's expansion fails.  The   *)
(* fileset parser resolves names after expansion: an unknown-function      *)
(* error there proves that expansion had succeeded.                        *)
ObservedExpansionOk(lang, outcome, kind) ==
  outcome = "ok" \/ (lang = "fileset" /\ outcome = "err" /\ kind = "nosuchfunction")
AliasOK(defs, expr, lang, outcome, kind) ==
  outcome \in {"ok", "err"} /\ (ObservedExpansionOk(lang, outcome, kind) <=> RefOutcome(defs, expr) = "ok")
===========================================================================
