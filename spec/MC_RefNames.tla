----------------------------- MODULE MC_RefNames -----------------------------
(* Design-level check and S->I generator for C33.  States are symbols      *)
(* (grown by appending name components) and ref names (grown by appending  *)
(* components after "refs").                                               *)
EXTENDS RefNames, TLC, Json

CONSTANTS MaxName, MaxRef, Bug, Emit

NameToks == {"a", "b", "HEAD", "git", "x"}
Remotes == { Git, <<"origin">>, <<"a">>, <<"HEAD">>, <<"o", "p">>, <<"origin", "a">>, Empty }
RefToks == {"refs", "heads", "remotes", "tags", "a", "HEAD", "git", "origin"}

VARIABLE st     \* [t |-> "sym", s |-> symbol] | [t |-> "ref", r |-> ref] | [t |-> "remote", r |-> remote]

Init == \/ \E k \in {"bookmark", "tag"}, n \in NameToks \cup {""}, r \in Remotes : st = [t |-> "sym", s |-> Sym(k, <<n>>, r)]
        \/ st = [t |-> "ref", r |-> <<"refs">>]
        \/ \E r \in Remotes : st = [t |-> "remote", r |-> r]
Next == \/ /\ st.t = "sym" /\ st.s.name # Empty /\ Len(st.s.name) < MaxName
           /\ \E c \in NameToks : st' = [st EXCEPT !.s.name = Append(st.s.name, c)]
        \/ /\ st.t = "ref" /\ Len(st.r) < MaxRef
           /\ \E c \in RefToks : st' = [st EXCEPT !.r = Append(st.r, c)]
Spec == Init /\ [][Next]_st

(* seeded design bugs *)
BugExportable(s) ==        \* remote names with a slash are not rejected
  /\ WellFormed(s.name)
  /\ IF s.kind = "bookmark" THEN s.name # <<"HEAD">> /\ s.remote # Empty ELSE s.remote = Git
BugParse(r) ==             \* refs/remotes/<r>/HEAD is imported as a bookmark called HEAD
  IF IsPrefix(<<"refs", "remotes">>, r) /\ Len(r) >= 4 /\ <<r[3]>> # Git
  THEN SomeSym("bookmark", Rest(r, 3), <<r[3]>>) ELSE Parse(r)
TheExportable(s) == IF Bug = "slashremote" THEN BugExportable(s) ELSE Exportable(s)
TheParse(r) == IF Bug = "remotehead" THEN BugParse(r) ELSE Parse(r)

InvExportParse ==
  st.t = "sym" => (TheExportable(st.s) =>
      /\ ToRef(st.s).some
      /\ TheParse(ToRef(st.s).ref) = SomeSym(st.s.kind, st.s.name, st.s.remote))
InvParseExport ==
  st.t = "ref" => LET y == TheParse(st.r) IN
      (WellFormed(st.r) /\ y.some) =>
          /\ ToRef(Sym(y.kind, y.name, y.remote)) = SomeRef(st.r)
          /\ Exportable(Sym(y.kind, y.name, y.remote))
(* exactly one ref per symbol, no two exportable symbols share a ref: over  *)
(* the whole (small) symbol domain at once                                  *)
Names(n) == UNION {[1..k -> NameToks] : k \in 1..n} \cup {Empty}
AllSyms == {Sym(k, n, r) : k \in {"bookmark", "tag"}, n \in Names(MaxName), r \in Remotes}
InvInjective ==
  st.t = "sym" => (TheExportable(st.s) =>
      \A s2 \in AllSyms : (TheExportable(s2) /\ s2 # st.s) => ToRef(s2) # ToRef(st.s))

EmitInv == Emit => PrintT(<<"CASE", ToJson(st)>>)
=============================================================================
