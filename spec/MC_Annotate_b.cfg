SPECIFICATION Spec
CONSTANTS
  MaxCommits = 3
  MaxTokens = 3
  SubDomains = TRUE
  OrderedParents = FALSE
  Bug = "none"
  Emit = TRUE
  RequireMerge = FALSE
INVARIANTS InvWalkMeetsContract InvWalkIsBlame EmitInv
CHECK_DEADLOCK FALSE
