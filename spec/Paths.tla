------------------------------- MODULE Paths -------------------------------
(* Conversion between file-system paths and repository paths               *)
(* (lib/src/repo_path.rs: RepoPathBuf::parse_fs_path, from_relative_path,  *)
(* RepoPath::to_fs_path; lib/src/file_util.rs: normalize_path,             *)
(* relative_path) and the C32 contract.                                    *)
(*                                                                         *)
(* Vocabulary.  A file-system path is [abs |-> BOOLEAN, toks |-> sequence  *)
(* of component TOKENS]; its text is the tokens joined by "/" with a       *)
(* leading "/" when abs.  Tokens are the normal names Normal plus the      *)
(* special ".", ".." and "" (an empty component: doubled or trailing       *)
(* separator).  A repository path is a sequence of tokens (internal string *)
(* = tokens joined by "/"); it is VALID when all its tokens are normal.    *)
(* The workspace root is the absolute directory Base; cwd is an absolute   *)
(* normal directory.                                                       *)
EXTENDS Naturals, Sequences, FiniteSets

CONSTANTS Normal,      \* normal component tokens, e.g. {"a", "ab", "uu"} ("uu" stands for a
                       \* non-ASCII name, concretised as "ü" by the harness: TLC corrupts
                       \* non-ASCII strings in states that are spilled to disk)
          Base         \* workspace root: sequence of normal tokens (absolute)

Special == {".", "..", ""}
Tokens == Normal \cup Special

IsPrefix(d, p) == Len(d) <= Len(p) /\ \A i \in 1..Len(d) : p[i] = d[i]
Rest(p, n) == SubSeq(p, n + 1, Len(p))
AllNormal(p) == \A i \in 1..Len(p) : p[i] \in Normal
Front(s) == SubSeq(s, 1, Len(s) - 1)
Last(s) == s[Len(s)]

Err == [ok |-> FALSE, out |-> <<>>]
Ok(p) == [ok |-> TRUE, out |-> p]

---------------------------------------------------------------------------
(* The text of a relative token sequence that starts with an empty         *)
(* component (and has more) begins with "/": it IS an absolute path.       *)
IsAbsText(abs, toks) == abs \/ (Len(toks) >= 2 /\ toks[1] = "")

(* cwd.join(input) as a token sequence of an absolute path *)
Joined(cwd, abs, toks) == IF IsAbsText(abs, toks) THEN toks ELSE cwd \o toks

(* std::path::Path::components on an ABSOLUTE path: empty components and   *)
(* "." vanish.                                                             *)
Components(toks) == SelectSeq(toks, LAMBDA t : t # "" /\ t # ".")

(* REFERENCE TRANSCRIPTION of file_util::normalize_path on the components  *)
(* of an absolute path: ".." pops a normal component; at the root (or      *)
(* after a kept "..") it is kept.                                          *)
RECURSIVE NormFrom(_, _, _)
NormFrom(cs, i, acc) ==
  IF i > Len(cs) THEN acc
  ELSE IF cs[i] = ".." /\ acc # <<>> /\ Last(acc) # ".." THEN NormFrom(cs, i + 1, Front(acc))
  ELSE NormFrom(cs, i + 1, Append(acc, cs[i]))
Normalize(toks) == NormFrom(Components(toks), 1, <<>>)

(* The location a path denotes on a POSIX file system without symlinks:    *)
(* ".." at the root stays at the root.                                     *)
RECURSIVE PosixFrom(_, _, _)
PosixFrom(cs, i, acc) ==
  IF i > Len(cs) THEN acc
  ELSE IF cs[i] = ".." THEN PosixFrom(cs, i + 1, IF acc = <<>> THEN acc ELSE Front(acc))
  ELSE PosixFrom(cs, i + 1, Append(acc, cs[i]))
Location(toks) == PosixFrom(Components(toks), 1, <<>>)
EscapesRoot(toks) == Normalize(toks) # Location(toks)

(* relative_path(base, p) followed by from_relative_path: Ok exactly when  *)
(* base is a component-wise prefix of p and the remainder is normal.       *)
UnderBase(p) == IF IsPrefix(Base, p) /\ AllNormal(Rest(p, Len(Base))) THEN Ok(Rest(p, Len(Base))) ELSE Err

(* REFERENCE TRANSCRIPTION of RepoPathBuf::parse_fs_path(cwd, base, input) *)
RefParse(cwd, abs, toks) == UnderBase(Normalize(Joined(cwd, abs, toks)))

(* REFERENCE TRANSCRIPTION of RepoPath::to_fs_path(base): Err when a       *)
(* component is not a plain file name.  The result is absolute.            *)
RefToFs(p) == IF AllNormal(p) THEN Ok(Base \o p) ELSE Err

(* format_file_path: the fs path of p relative to cwd (relative_path)      *)
RECURSIVE CommonLen(_, _)
CommonLen(a, b) == IF a # <<>> /\ b # <<>> /\ a[1] = b[1] THEN 1 + CommonLen(Rest(a, 1), Rest(b, 1)) ELSE 0
RefRelative(from, to) ==
  LET n == CommonLen(from, to)
      ups == [i \in 1..(Len(from) - n) |-> ".."]
      r == ups \o Rest(to, n)
  IN IF r = <<>> THEN <<".">> ELSE r

---------------------------------------------------------------------------
(* CONTRACTS (C32)                                                         *)

(* parse_fs_path: a result denotes the same location as the input, inside  *)
(* the workspace, with plain components only; every input whose location   *)
(* is inside the workspace is accepted.  Where ".." climbs above the file- *)
(* system root the lexical answer (reject) and the POSIX answer are both   *)
(* allowed.                                                                *)
ParseSound(cwd, abs, toks, r) ==
  r.ok => /\ AllNormal(r.out)
          /\ Location(Joined(cwd, abs, toks)) = Base \o r.out
ParseComplete(cwd, abs, toks, r) ==
  LET j == Joined(cwd, abs, toks) IN
    (~EscapesRoot(j) /\ UnderBase(Location(j)).ok) => r.ok
ParseOK(cwd, abs, toks, r) == ParseSound(cwd, abs, toks, r) /\ ParseComplete(cwd, abs, toks, r)

(* to_fs_path: never leaves the workspace (it is Base followed by exactly  *)
(* the plain components of p, or an error); valid paths are accepted.      *)
ToFsConfined(p, r) == r.ok => /\ IsPrefix(Base, Location(r.out))
                              /\ Location(r.out) = Base \o p
                              /\ AllNormal(p)
ToFsComplete(p, r) == AllNormal(p) => r.ok
ToFsOK(p, r) == ToFsConfined(p, r) /\ ToFsComplete(p, r)

(* round trips of a VALID repository path p, from any cwd: through the     *)
(* absolute fs path and through the cwd-relative UI form                   *)
RoundTripOK(p, back) == AllNormal(p) => (back.ok /\ back.out = p)
===========================================================================
