SPECIFICATION MCSpec
CONSTANTS
  Guards = {"G3", "G4", "G5"}
  MaxSteps = 12
INVARIANTS Loadable
CHECK_DEADLOCK FALSE
