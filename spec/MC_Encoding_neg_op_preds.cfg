SPECIFICATION Spec
CONSTANTS
  K = 2
  Kinds = {"op"}
  Emit = FALSE
  RepLevel = 2
  Bug = "op_drops_preds_flag"
INVARIANTS InvOp
CHECK_DEADLOCK FALSE
