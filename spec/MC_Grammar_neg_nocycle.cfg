SPECIFICATION Spec
CONSTANTS
  Mode = "alias"
  MaxSent = 0
  Samples = 500
  SampleLen = 0
  MaxDerive = 0
  Bug = "nocycle"
  Emit = FALSE
INVARIANTS InvStack InvOutcome InvStatic InvDerive EmitInv
CHECK_DEADLOCK FALSE
