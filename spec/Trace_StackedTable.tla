-------------------------- MODULE Trace_StackedTable --------------------------
(* I->S binding for C21: judges logs of the real TableStore (harness        *)
(* stable.rs) against the C21 contracts of StackedTable.  The ghost state    *)
(* (completed saves, squash views, lookups per segment name) is rebuilt from *)
(* the log; a "reset" event starts a new case.                               *)
EXTENDS StackedTable, Json, IOUtils, TLC

Rec == ndJsonDeserialize(IOEnv.TRACE)

VARIABLES l, saved, sqentries, known, nkeys, recopied
tvars == <<l, saved, sqentries, known, nkeys, recopied>>

ToSet(s) == {s[i] : i \in 1..Len(s)}
Keys == 1..nkeys
PutsOf(e) == [k \in {e.puts[i][1] : i \in 1..Len(e.puts)} |->
                (CHOOSE i \in 1..Len(e.puts) : e.puts[i][1] = k) ] 
PutMap(e) == LET idx == PutsOf(e) IN [k \in DOMAIN idx |-> e.puts[idx[k]][2]]
ValsOf(name) == (CHOOSE r \in known : r.name = name).vals
Known(name) == \E r \in known : r.name = name
SameName(e) == Known(e.name) => ValsOf(e.name) = e.vals
ChainNames(c) == {c[i][1] : i \in 1..Len(c)}
(* local entries of the segments of stack `old` that are not in stack `new` *)
Folded(old, new) ==
  UNION {{<<k, old[i][3][k]>> : k \in {j \in 1..Len(old[i][3]) : old[i][3][j] # 0}} :
           i \in {j \in 1..Len(old) : old[j][1] \notin ChainNames(new)}}

SaveVerdict(e) ==
  IF ~SaveViewOK(e.seen, PutMap(e), e.vals, Keys) THEN "SaveView"
  ELSE IF e.name \notin ToSet(e.heads) THEN "SavedTableNotAHead"
  ELSE IF ~SameName(e) THEN "SameNameSameLookups"
  ELSE "ok"

MergeViewOK(e) ==
  (Len(e.order) > 1 /\ \A i \in 1..Len(e.order) : Known(e.order[i])) =>
    \A k \in Keys : e.vals[k] \in {ValsOf(e.order[i])[k] : i \in 1..Len(e.order)}

(* second known shape: with three or more heads, a segment that is in the   *)
(* stacks of two of the merged-in heads (but not of the first head) is       *)
(* copied once per head; the second copy overwrites newer entries taken     *)
(* from the head merged in between                                          *)
SharedRecopied(e, k, v) ==
  /\ Len(e.order) >= 3 /\ Len(e.chains) = Len(e.order)
  /\ \E i, j \in 2..Len(e.chains) :
        /\ i < j
        /\ \E a \in 1..Len(e.chains[i]), b \in 1..Len(e.chains[j]) :
              /\ e.chains[i][a][1] = e.chains[j][b][1]
              /\ e.chains[i][a][1] \notin ChainNames(e.chains[1])
              /\ e.chains[i][a][3][k] = v
SqAfter(e) == IF Len(e.order) > 1 THEN sqentries \cup Folded(e.first_chain, e.chain) ELSE sqentries
RegressedKnown(e) ==      \* a LaterWins failure, every regressed key has the (first) known shape
  \A k \in Keys : LaterWinsIn(saved, e.vals, k) \/ SquashHidesAncestry(SqAfter(e), k, e.vals[k])
RegressedKnown2(e) ==     \* ... or the second one
  \A k \in Keys : \/ LaterWinsIn(saved, e.vals, k) \/ SquashHidesAncestry(SqAfter(e), k, e.vals[k])
                  \/ SharedRecopied(e, k, e.vals[k]) \/ <<k, e.vals[k]>> \in recopied

GetHeadVerdict(e) ==
  IF Len(e.heads) = 0 THEN "HeadsEmptyAfterGetHead"
  ELSE IF e.name \notin ToSet(e.heads) \/ Len(e.heads) # 1 THEN "GetHeadLeavesOneHead"
  ELSE IF ~AllSavedFoundIn(saved, e.vals) THEN "AllSavedFound"
  ELSE IF ~MergeViewOK(e) THEN "MergeView"
  ELSE IF ~SameName(e) THEN "SameNameSameLookups"
  ELSE IF \E k \in Keys : ~LaterWinsIn(saved, e.vals, k)
       THEN (IF RegressedKnown(e) THEN "LaterWins:squash-hides-ancestry"
             ELSE IF RegressedKnown2(e) THEN "LaterWins:shared-ancestor-recopied" ELSE "LaterWins")
  ELSE "ok"

Verdict(e) ==
  IF e.op = "save" THEN SaveVerdict(e)
  ELSE IF e.op = "gethead" THEN GetHeadVerdict(e)
  ELSE IF e.op = "panic" THEN "Panic"
  ELSE IF e.op = "error" THEN "Error"
  ELSE "ok"

TInit == l = 1 /\ saved = <<>> /\ sqentries = {} /\ known = {} /\ nkeys = 1 /\ recopied = {}

Reset == /\ l <= Len(Rec) /\ Rec[l].op = "reset"
         /\ saved' = <<>> /\ sqentries' = {} /\ known' = {} /\ nkeys' = Rec[l].nkeys /\ recopied' = {}
         /\ l' = l + 1

Judge ==
  /\ l <= Len(Rec) /\ Rec[l].op # "reset"
  /\ LET e == Rec[l]  v == Verdict(e) IN
       /\ (IF v = "ok" THEN TRUE ELSE PrintT(<<"BAD", l, v>>))
       /\ IF e.op = "save" THEN
               /\ saved' = Append(saved, [puts |-> PutMap(e), seen |-> e.seen])
               /\ sqentries' = sqentries \cup Folded(e.base_chain, e.chain)
               /\ known' = known \cup {[name |-> e.name, vals |-> e.vals]}
               /\ UNCHANGED recopied
          ELSE IF e.op = "gethead" THEN
               /\ sqentries' = SqAfter(e)
               /\ known' = known \cup {[name |-> e.name, vals |-> e.vals]}
               \* a regression explained by the second known shape stays visible in later loads
               /\ recopied' = recopied \cup {<<k, e.vals[k]>> : k \in {j \in Keys : ~LaterWinsIn(saved, e.vals, j)
                                                                            /\ SharedRecopied(e, j, e.vals[j])}}
               /\ UNCHANGED saved
          ELSE UNCHANGED <<saved, sqentries, known, recopied>>
  /\ l' = l + 1 /\ UNCHANGED nkeys

Finish == /\ l = Len(Rec) + 1 /\ PrintT(<<"JUDGED", Len(Rec)>>)
          /\ l' = l + 1 /\ UNCHANGED <<saved, sqentries, known, nkeys, recopied>>

TNext == Reset \/ Judge \/ Finish
TSpec == TInit /\ [][TNext]_tvars
=============================================================================
