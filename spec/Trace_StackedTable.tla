-------------------------- MODULE Trace_StackedTable --------------------------
(* I->S binding for C21: judges logs of the real TableStore (harness        *)
(* stable.rs) against the C21 contracts of StackedTable.  The ghost state    *)
(* (completed saves, squash views, lookups per segment name) is rebuilt from *)
(* the log; a "reset" event starts a new case.                               *)
EXTENDS StackedTable, Json, IOUtils, TLC

Rec == ndJsonDeserialize(IOEnv.TRACE)

VARIABLES l, saved, sqviews, known, nkeys
tvars == <<l, saved, sqviews, known, nkeys>>

ToSet(s) == {s[i] : i \in 1..Len(s)}
Keys == 1..nkeys
PutsOf(e) == [k \in {e.puts[i][1] : i \in 1..Len(e.puts)} |->
                (CHOOSE i \in 1..Len(e.puts) : e.puts[i][1] = k) ] 
PutMap(e) == LET idx == PutsOf(e) IN [k \in DOMAIN idx |-> e.puts[idx[k]][2]]
ValsOf(name) == (CHOOSE r \in known : r.name = name).vals
Known(name) == \E r \in known : r.name = name
SameName(e) == Known(e.name) => ValsOf(e.name) = e.vals
ParentName(e) == IF Len(e.chain) >= 2 THEN e.chain[2][1] ELSE 0

SaveVerdict(e) ==
  IF ~SaveViewOK(e.seen, PutMap(e), e.vals, Keys) THEN "SaveView"
  ELSE IF e.name \notin ToSet(e.heads) THEN "SavedTableNotAHead"
  ELSE IF ~SameName(e) THEN "SameNameSameLookups"
  ELSE "ok"

MergeViewOK(e) ==
  (Len(e.order) > 1 /\ \A i \in 1..Len(e.order) : Known(e.order[i])) =>
    \A k \in Keys : e.vals[k] \in {ValsOf(e.order[i])[k] : i \in 1..Len(e.order)}

RegressedKnown(e) ==      \* a LaterWins failure, every regressed key has the known shape
  \A k \in Keys : LaterWinsIn(saved, e.vals, k) \/ SquashHidesAncestry(sqviews, k, e.vals[k])

GetHeadVerdict(e) ==
  IF Len(e.heads) = 0 THEN "HeadsEmptyAfterGetHead"
  ELSE IF e.name \notin ToSet(e.heads) \/ Len(e.heads) # 1 THEN "GetHeadLeavesOneHead"
  ELSE IF ~AllSavedFoundIn(saved, e.vals) THEN "AllSavedFound"
  ELSE IF ~MergeViewOK(e) THEN "MergeView"
  ELSE IF ~SameName(e) THEN "SameNameSameLookups"
  ELSE IF \E k \in Keys : ~LaterWinsIn(saved, e.vals, k)
       THEN (IF RegressedKnown(e) THEN "LaterWins:squash-hides-ancestry" ELSE "LaterWins")
  ELSE "ok"

Verdict(e) ==
  IF e.op = "save" THEN SaveVerdict(e)
  ELSE IF e.op = "gethead" THEN GetHeadVerdict(e)
  ELSE IF e.op = "panic" THEN "Panic"
  ELSE IF e.op = "error" THEN "Error"
  ELSE "ok"

TInit == l = 1 /\ saved = <<>> /\ sqviews = {} /\ known = {} /\ nkeys = 1

Reset == /\ l <= Len(Rec) /\ Rec[l].op = "reset"
         /\ saved' = <<>> /\ sqviews' = {} /\ known' = {} /\ nkeys' = Rec[l].nkeys
         /\ l' = l + 1

Judge ==
  /\ l <= Len(Rec) /\ Rec[l].op # "reset"
  /\ LET e == Rec[l]  v == Verdict(e) IN
       /\ (IF v = "ok" THEN TRUE ELSE PrintT(<<"BAD", l, v>>))
       /\ IF e.op = "save" THEN
               /\ saved' = Append(saved, [puts |-> PutMap(e), seen |-> e.seen])
               /\ sqviews' = IF ParentName(e) # e.base /\ e.name # e.base THEN sqviews \cup {e.seen} ELSE sqviews
               /\ known' = known \cup {[name |-> e.name, vals |-> e.vals]}
          ELSE IF e.op = "gethead" THEN
               /\ sqviews' = IF Len(e.order) > 1 /\ e.name # e.order[1] /\ ParentName(e) # e.order[1]
                             THEN sqviews \cup {e.vals} ELSE sqviews
               /\ known' = known \cup {[name |-> e.name, vals |-> e.vals]}
               /\ UNCHANGED saved
          ELSE UNCHANGED <<saved, sqviews, known>>
  /\ l' = l + 1 /\ UNCHANGED nkeys

Finish == /\ l = Len(Rec) + 1 /\ PrintT(<<"JUDGED", Len(Rec)>>)
          /\ l' = l + 1 /\ UNCHANGED <<saved, sqviews, known, nkeys>>

TNext == Reset \/ Judge \/ Finish
TSpec == TInit /\ [][TNext]_tvars
=============================================================================
