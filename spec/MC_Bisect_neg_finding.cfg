SPECIFICATION Spec
CONSTANTS
  MaxNodes = 3
  Shape = "any"
  SubRanges = FALSE
  WithSkips = FALSE
  Engine = "any"
  ExcludeFinding = FALSE
  Bug = "none"
  Emit = FALSE
INVARIANTS InvNoRepeat InvVerdict InvProgress EmitInv
CHECK_DEADLOCK FALSE
