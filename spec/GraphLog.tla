------------------------------ MODULE GraphLog ------------------------------
(* C39: log graph edges preserve ancestry.                                  *)
(*                                                                          *)
(* The log shows a set S of commits of a graph G as a stream of             *)
(* <<node, edges>>, an edge being <<target, kind>> with kind "d" (direct),  *)
(* "i" (indirect) or "m" (missing).  CONTRACT GraphOK below; REFERENCE      *)
(* RefTargets: what jj's RevsetGraphWalk computes today (all direct and     *)
(* indirect edges; with transitive-edge skipping, the transitive            *)
(* reduction).                                                              *)
EXTENDS Dag, Integers

GlSeqToSet(s) == {s[i] : i \in 1..Len(s)}

(* targets in S reached from n through at least one commit outside S and    *)
(* only such commits.  through = TRUE seeds the bug "keeps walking through  *)
(* shown commits".                                                          *)
ExtReachR(G, S, n, through) ==
  LET Step(E) == E \cup (UNION {ParentSet(G, c) : c \in E} \ (IF through THEN {} ELSE S))
      RECURSIVE Fix(_)
      Fix(E) == IF Step(E) = E THEN E ELSE Fix(Step(E))
      ext == Fix(ParentSet(G, n) \ S)
  IN (UNION {ParentSet(G, c) : c \in ext}) \cap S
ExtReach(G, S, n) == ExtReachR(G, S, n, FALSE)

(* REFERENCE: non-missing targets of n.  All shown parents and everything   *)
(* reached through hidden commits; with transitive-edge skipping, jj drops  *)
(* the targets that are ancestors of other targets -- but only when there   *)
(* is at least one indirect edge (a commit whose edges are all direct keeps *)
(* them all: remove_transitive_edges returns early).                        *)
RefTargetsR(G, S, n, skip, through) ==
  LET full == (ParentSet(G, n) \cap S) \cup ExtReachR(G, S, n, through)
  IN IF skip /\ ExtReachR(G, S, n, through) # {} THEN Heads(G, full) ELSE full
RefTargets(G, S, n, skip) == RefTargetsR(G, S, n, skip, FALSE)
(* kinds jj attaches to a target: a shown parent gets "d"; a target reached  *)
(* through hidden commits gets "i" (a target can get both)                  *)
RefKinds(G, S, n, t) ==
  (IF t \in ParentSet(G, n) THEN {"d"} ELSE {}) \cup (IF t \in ExtReach(G, S, n) THEN {"i"} ELSE {})

---------------------------------------------------------------------------
(* CONTRACT.  out: sequence of <<node, <<edge, ...>>>>, edge = <<t, kind>>  *)
Nodes_(out) == [i \in 1..Len(out) |-> out[i][1]]
EdgesOf(out, n) == LET i == CHOOSE k \in 1..Len(out) : out[k][1] = n IN out[i][2]
Targets(es, kinds) == {es[k][1] : k \in {j \in 1..Len(es) : es[j][2] \in kinds}}

NodesOK(G, S, out) ==
  LET ns == Nodes_(out) IN
  /\ GlSeqToSet(ns) = S
  /\ \A i, j \in 1..Len(ns) : i < j => (ns[i] # ns[j] /\ ~IsAncestor(G, ns[i], ns[j]))

EdgeOK(G, S, n, ed) ==
  LET t == ed[1] IN
  IF ed[2] = "d" THEN t \in ParentSet(G, n) /\ t \in S
  ELSE IF ed[2] = "i" THEN t \in ExtReach(G, S, n)
  ELSE IF ed[2] = "m" THEN t \notin S /\ t \in StrictAncestors(G, n)
  ELSE FALSE

EdgesSound(G, S, out) ==
  \A i \in 1..Len(out) :
    LET n == out[i][1]
        es == out[i][2]
    IN \A k \in 1..Len(es) : EdgeOK(G, S, n, es[k])

(* nodes of S reachable from n along emitted non-missing edges (>= 1 step) *)
ReachByEdges(out, S, n) ==
  LET Succ(c) == Targets(EdgesOf(out, c), {"d", "i"})
      RECURSIVE Fix(_)
      Fix(T) == LET T2 == T \cup UNION {Succ(c) : c \in T} IN IF T2 = T THEN T ELSE Fix(T2)
  IN Fix(Succ(n))

(* every ancestry relation between shown commits is implied by the edges *)
AncestryImplied(G, S, out) ==
  \A n \in S : StrictAncestors(G, n) \cap S \subseteq ReachByEdges(out, S, n)

(* with transitive-edge skipping no INDIRECT edge is implied by the other   *)
(* edges of its commit (the documented purpose of the skipping mode)        *)
NoTransitiveIndirectEdge(G, S, out) ==
  \A n \in S :
    LET es == EdgesOf(out, n)
        ts == Targets(es, {"d", "i"})
    IN \A t \in Targets(es, {"i"}) : ~\E u \in ts : u # t /\ t \in ReachByEdges(out, S, u)

GraphVerdict(G, S, out, skip) ==
  IF ~NodesOK(G, S, out) THEN "NodesOK"
  ELSE IF ~EdgesSound(G, S, out) THEN "EdgesSound"
  ELSE IF ~AncestryImplied(G, S, out) THEN "AncestryImplied"
  ELSE IF skip /\ ~NoTransitiveIndirectEdge(G, S, out) THEN "NoTransitiveIndirectEdge"
  ELSE "ok"

(* divergence from the reference (never a violation): targets and kinds are *)
(* exactly the reference's, nothing is listed twice                         *)
MatchesReference(G, S, out, skip) ==
  \A n \in S :
    LET es == EdgesOf(out, n) IN
    /\ Targets(es, {"d", "i"}) = RefTargets(G, S, n, skip)
    /\ \A t \in Targets(es, {"d", "i"}) :
         {es[k][2] : k \in {j \in 1..Len(es) : es[j][1] = t}} = RefKinds(G, S, n, t)
    /\ \A k, m \in 1..Len(es) : k # m => es[k] # es[m]
=============================================================================
