SPECIFICATION MCSpec
CONSTANTS
  Repos = {"r1", "r2", "r3"}
  NumIds = 5
  MaxSteps = 6
  Emit = FALSE
  Bias = 0
  Bug = "copy_loses_content"
INVARIANTS InvCopyKeepsContent
VIEW View
CHECK_DEADLOCK FALSE
