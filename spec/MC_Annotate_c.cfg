SPECIFICATION Spec
CONSTANTS
  MaxCommits = 4
  MaxTokens = 3
  SubDomains = FALSE
  OrderedParents = FALSE
  Bug = "none"
  Emit = TRUE
  RequireMerge = TRUE
INVARIANTS InvWalkMeetsContract InvWalkIsBlame EmitInv
CHECK_DEADLOCK FALSE
