SPECIFICATION Spec
CONSTANTS
  MaxConflicted = 1
  Bug = "stale"
INVARIANTS InvRefMerge InvFixpoint
CHECK_DEADLOCK FALSE
