-------------------------------- MODULE Eol --------------------------------
(* C29: line-ending conversion (lib/src/eol.rs) as seen through a real      *)
(* check-out + snapshot.                                                    *)
(*                                                                          *)
(* VOCABULARY.  File content is a run-length list <<[c, n], ...>> over the  *)
(* byte classes T (an ordinary text byte), CR, LF, NUL; n >= 1 and          *)
(* adjacent runs have different classes ("normal form").  This keeps        *)
(* 8 KiB contents a handful of elements for TLC.                            *)
(*                                                                          *)
(* REFERENCE TRANSCRIPTION: IsBinary (is_binary), Probe (probe_for_binary   *)
(* with the CR-at-limit rule), ToLf / ToCrlf (convert_eol),                 *)
(* RefUpdate / RefSnapshot (convert_eol_for_update / _for_snapshot).        *)
(* CONTRACTS: UpdateOK, SnapshotOK, RoundTripOK (bottom).                   *)
EXTENDS Naturals, Integers, Sequences

T == 0  CR == 1  LF == 2  NUL == 3
P == 8192                      \* TargetEolStrategy::PROBE_LIMIT

Run(c, n) == [c |-> c, n |-> n]

RECURSIVE Total(_)
Total(s) == IF s = <<>> THEN 0 ELSE s[1].n + Total(Tail(s))

(* normal form: no empty runs, adjacent runs merged *)
RECURSIVE Norm(_)
Norm(s) ==
  IF s = <<>> THEN <<>>
  ELSE IF s[1].n = 0 THEN Norm(Tail(s))
  ELSE LET r == Norm(Tail(s)) IN
       IF r # <<>> /\ r[1].c = s[1].c
       THEN <<Run(s[1].c, s[1].n + r[1].n)>> \o Tail(r)
       ELSE <<s[1]>> \o r

IsNormal(s) == /\ \A i \in 1..Len(s) : s[i].n >= 1 /\ s[i].c \in {T, CR, LF, NUL}
               /\ \A i \in 1..Len(s) - 1 : s[i].c # s[i + 1].c

(* first k bytes *)
RECURSIVE Take(_, _)
Take(s, k) ==
  IF s = <<>> \/ k = 0 THEN <<>>
  ELSE IF s[1].n >= k THEN <<Run(s[1].c, k)>>
  ELSE <<s[1]>> \o Take(Tail(s), k - s[1].n)

(* class of byte i (0-based), -1 beyond the end *)
RECURSIVE ClassAt(_, _)
ClassAt(s, i) ==
  IF s = <<>> THEN -1
  ELSE IF i < s[1].n THEN s[1].c
  ELSE ClassAt(Tail(s), i - s[1].n)

Has(s, c) == \E i \in 1..Len(s) : s[i].c = c
(* a CR that is not immediately followed by LF (s in normal form) *)
LoneCR(s) == \E i \in 1..Len(s) :
               s[i].c = CR /\ (s[i].n >= 2 \/ i = Len(s) \/ s[i + 1].c # LF)
(* a CR immediately followed by LF *)
HasCRLF(s) == \E i \in 1..Len(s) - 1 : s[i].c = CR /\ s[i + 1].c = LF

---------------------------------------------------------------------------
(* REFERENCE TRANSCRIPTION                                                  *)

(* is_binary: a NUL, or a CR whose next byte is not LF (also at the end)    *)
IsBinary(s) == Has(s, NUL) \/ LoneCR(s)

(* probe_for_binary: look at the first P bytes; if byte P-1 is a CR the     *)
(* limit may have cut a CRLF pair, so that byte is not looked at            *)
Probe(s) ==
  LET w == Take(s, P) IN
  IF Total(w) = P /\ ClassAt(w, P - 1) = CR THEN Take(s, P - 1) ELSE w
ProbeBinary(s) == IsBinary(Probe(s))

(* convert_eol(Lf): every "CR LF" becomes "LF" (only the CR directly in     *)
(* front of an LF is dropped)                                               *)
RECURSIVE ToLfFrom(_, _)
ToLfFrom(s, i) ==
  IF i > Len(s) THEN <<>>
  ELSE IF s[i].c = CR /\ i < Len(s) /\ s[i + 1].c = LF
       THEN <<Run(CR, s[i].n - 1)>> \o ToLfFrom(s, i + 1)
       ELSE <<s[i]>> \o ToLfFrom(s, i + 1)
ToLf(s) == Norm(ToLfFrom(s, 1))

(* convert_eol(Crlf): every LF not already preceded by CR gets one          *)
RECURSIVE CrLfs(_)
CrLfs(k) == IF k = 0 THEN <<>> ELSE <<Run(CR, 1), Run(LF, 1)>> \o CrLfs(k - 1)
RECURSIVE ToCrlfFrom(_, _)
ToCrlfFrom(s, i) ==
  IF i > Len(s) THEN <<>>
  ELSE IF s[i].c = LF
       THEN (IF i > 1 /\ s[i - 1].c = CR
             THEN <<Run(LF, 1)>> \o CrLfs(s[i].n - 1)
             ELSE CrLfs(s[i].n)) \o ToCrlfFrom(s, i + 1)
       ELSE <<s[i]>> \o ToCrlfFrom(s, i + 1)
ToCrlf(s) == Norm(ToCrlfFrom(s, 1))

Modes == {"none", "input", "input-output"}

(* convert_eol_for_update: store -> disk *)
RefUpdate(mode, stored) ==
  IF mode = "input-output" /\ ~ProbeBinary(stored) THEN ToCrlf(stored) ELSE stored
(* convert_eol_for_snapshot: disk -> store *)
RefSnapshot(mode, disk) ==
  IF mode \in {"input", "input-output"} /\ ~ProbeBinary(disk) THEN ToLf(disk) ELSE disk

---------------------------------------------------------------------------
(* CONTRACTS (what C29 promises; only these judge)                          *)

(* unambiguous classes, independent of where exactly the probe stops:       *)
PureText(s)   == ~Has(s, NUL) /\ ~LoneCR(s)         \* text wherever one probes
PureLfText(s) == ~Has(s, NUL) /\ ~Has(s, CR)        \* "stored with LF line endings"
(* classified as binary: an indicator within the probe window               *)
Binary(s) == ProbeBinary(s)

(* check-out: stored -> disk                                                *)
UpdateOK(mode, stored, disk) ==
  /\ mode \in {"none", "input"} => disk = stored            \* verbatim
  /\ mode = "input-output" =>
       /\ Binary(stored) => disk = stored                   \* binary passes through
       /\ PureLfText(stored) => disk = ToCrlf(stored)       \* LF text is written as CRLF

(* snapshot: disk -> stored                                                 *)
SnapshotOK(mode, disk, stored) ==
  /\ mode = "none" => stored = disk
  /\ mode \in {"input", "input-output"} =>
       /\ Binary(disk) => stored = disk
       /\ PureText(disk) => stored = ToLf(disk)

(* check-out followed by snapshot returns the stored content whenever the   *)
(* stored content is binary or has no CRLF pair in it (LF-normalised)       *)
RoundTripOK(mode, stored, restored) ==
  (mode = "none" \/ Binary(stored) \/ ~HasCRLF(stored)) => restored = stored
=============================================================================
