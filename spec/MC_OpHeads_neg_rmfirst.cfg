SPECIFICATION MCSpec
CONSTANTS
  Procs = {1, 2}
  Final = 0
  NCmds = 1
  LocksWork = FALSE
  MaxCrashes = 0
  Bug = "rmfirst"
INVARIANTS NonEmptyHeads PublishedReachable HeadsExist NoFailure FinalOK
CHECK_DEADLOCK FALSE
