SPECIFICATION HSpec
CONSTANTS
  Procs = {1, 2, 3}
  Final = 0
  NCmds = 1
  LocksWork = FALSE
  MaxCrashes = 1
INVARIANTS EmitSchedule
CHECK_DEADLOCK FALSE
