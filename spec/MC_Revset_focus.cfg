SPECIFICATION Spec
CONSTANTS
  Shapes = {4, 5}
  MaxDepth = 2
  Small = TRUE
  Focus = TRUE
  Bug = "none"
INVARIANTS InvWithinAll InvDifference InvRange InvFoldGeneration InvFoldDescendants InvHeadsRoots InvNotAncestors EmitInv
CHECK_DEADLOCK FALSE
