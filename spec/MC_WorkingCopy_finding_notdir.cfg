SPECIFICATION Spec
CONSTANTS
  Paths <- StdPaths
  PathOrder <- StdPathOrder
  IgnoreVocab <- StdIgnoreVocab
  Bug = "none"
  MaxSteps = 3
  MaxEditRun = 3
  Acts = {"DirToFile", "Mkfifo", "Snapshot", "CheckOut"}
  EditPaths <- InsideIgnoredPaths
  Contents = {2}
  SymTargets = {"out"}
  RootIgnore = {}
  DirIgnore = {}
  TreeIds = {12}
  SparseIds = {}
  XP = "respect"
  Strict = "all"
  Emit = FALSE
INVARIANTS Inv_C23
VIEW View
CHECK_DEADLOCK FALSE
