------------------------------ MODULE RefNames ------------------------------
(* Mapping between jj bookmark/tag symbols (name@remote) and Git ref names  *)
(* (lib/src/git.rs: to_git_ref_name, parse_git_ref, validate_remote_name)   *)
(* and the C33 one-to-one laws.                                             *)
(*                                                                          *)
(* Vocabulary.  A string is a non-empty sequence of "/"-separated           *)
(* components; the empty string is <<"">>.  A symbol is                     *)
(* [kind |-> "bookmark"|"tag", name |-> string, remote |-> string]; the     *)
(* remote "git" stands for the backing Git repo (local bookmarks / tags).   *)
(* An optional value is [some |-> FALSE] or a record with some |-> TRUE.    *)
EXTENDS Naturals, Sequences, FiniteSets

Empty == <<"">>
Git == <<"git">>
Rest(p, n) == SubSeq(p, n + 1, Len(p))
IsPrefix(d, p) == Len(d) <= Len(p) /\ \A i \in 1..Len(d) : p[i] = d[i]

None == [some |-> FALSE]
SomeRef(r) == [some |-> TRUE, ref |-> r]
SomeSym(k, n, r) == [some |-> TRUE, kind |-> k, name |-> n, remote |-> r]
Sym(k, n, r) == [kind |-> k, name |-> n, remote |-> r]

---------------------------------------------------------------------------
(* REFERENCE TRANSCRIPTIONS                                                *)
ToRef(s) ==
  IF s.name = Empty \/ s.remote = Empty THEN None
  ELSE IF s.kind = "bookmark" THEN
         IF s.name = <<"HEAD">> THEN None
         ELSE IF s.remote = Git THEN SomeRef(<<"refs", "heads">> \o s.name)
         ELSE SomeRef(<<"refs", "remotes">> \o s.remote \o s.name)
  ELSE IF s.remote = Git THEN SomeRef(<<"refs", "tags">> \o s.name) ELSE None

(* strip_prefix("refs/heads/") needs a component after the prefix; a       *)
(* remote-tracking ref splits at the first "/" after "refs/remotes/".      *)
Parse(r) ==
  IF IsPrefix(<<"refs", "heads">>, r) /\ Len(r) >= 3 THEN
       LET n == Rest(r, 2) IN IF n = <<"HEAD">> THEN None ELSE SomeSym("bookmark", n, Git)
  ELSE IF IsPrefix(<<"refs", "remotes">>, r) /\ Len(r) >= 3 THEN
       IF Len(r) < 4 THEN None
       ELSE LET rem == <<r[3]>>  n == Rest(r, 3) IN
              IF rem = Git \/ n = <<"HEAD">> THEN None ELSE SomeSym("bookmark", n, rem)
  ELSE IF IsPrefix(<<"refs", "tags">>, r) /\ Len(r) >= 3 THEN SomeSym("tag", Rest(r, 2), Git)
  ELSE None

(* validate_remote_name on plain tokens: not empty, not the reserved "git", *)
(* no slash                                                                 *)
ValidRemote(r) == Len(r) = 1 /\ r[1] # "" /\ r # Git

---------------------------------------------------------------------------
(* The symbols jj can export: a non-empty name without empty components;   *)
(* a bookmark is local (@git) or on a valid remote and is not called HEAD; *)
(* a tag is local.                                                         *)
WellFormed(str) == \A i \in 1..Len(str) : str[i] # ""
Exportable(s) ==
  /\ WellFormed(s.name)
  /\ IF s.kind = "bookmark" THEN s.name # <<"HEAD">> /\ (s.remote = Git \/ ValidRemote(s.remote))
                            ELSE s.remote = Git

(* CONTRACTS (C33), on observed answers:                                   *)
(*  ref  = the code's ref name for symbol s (optional)                     *)
(*  back = the code's parse of that ref name (optional)                    *)
ExportParseOK(s, ref, back) ==
  Exportable(s) => /\ ref.some
                   /\ back = SomeSym(s.kind, s.name, s.remote)
(*  sym  = the code's parse of ref name r; ref2 = the code's ref name for  *)
(*  that symbol                                                            *)
ParseExportOK(r, sym, ref2) ==
  (WellFormed(r) /\ sym.some) => ref2 = SomeRef(r)
(* an imported symbol is one jj can export again *)
ParsedIsExportable(r, sym) ==
  (WellFormed(r) /\ sym.some) => Exportable(Sym(sym.kind, sym.name, sym.remote))
===========================================================================
