SPECIFICATION Spec
CONSTANTS
  Mode = "derive"
  MaxSent = 0
  Samples = 0
  SampleLen = 0
  MaxDerive = 6
  Bug = "none"
  Emit = TRUE
INVARIANTS InvStack InvOutcome InvStatic InvDerive EmitInv
CHECK_DEADLOCK FALSE
