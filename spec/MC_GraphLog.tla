---------------------------- MODULE MC_GraphLog ----------------------------
(* C39 design level + case generator: every DAG with <= MaxCommits commits  *)
(* (grown commit by commit) x every subset S of its commits (root included).*)
(* Invariant: the stream built from the reference edges meets the contract, *)
(* without and with transitive-edge skipping.  EmitInv prints each DAG with *)
(* all its subsets as one case for the replayer.                            *)
EXTENDS GraphLog, TLC, Json

CONSTANTS MaxCommits, MaxParents, Bug

VARIABLES pseq, shown
vars == <<pseq, shown>>

G == [c \in 0..Len(pseq) |-> IF c = 0 THEN <<>> ELSE pseq[c]]
McMin(S) == CHOOSE x \in S : \A y \in S : x <= y
McMax(S) == CHOOSE x \in S : \A y \in S : y <= x
RECURSIVE Asc(_)
Asc(S) == IF S = {} THEN <<>> ELSE <<McMin(S)>> \o Asc(S \ {McMin(S)})
RECURSIVE Desc(_)
Desc(S) == IF S = {} THEN <<>> ELSE <<McMax(S)>> \o Desc(S \ {McMax(S)})

ParentChoices(n) ==
  {<<0>>} \cup {Asc(T) : T \in {U \in SUBSET (1..n) : U # {} /\ Cardinality(U) <= MaxParents}}

(* shown = {}: the DAG is still growing; otherwise the set of shown commits *)
Init == pseq = <<>> /\ shown = {}
Grow == /\ shown = {} /\ Len(pseq) < MaxCommits
        /\ \E ps \in ParentChoices(Len(pseq)) : pseq' = Append(pseq, ps)
        /\ shown' = {}
Show == /\ shown = {} /\ Len(pseq) >= 1
        /\ shown' \in SUBSET (0..Len(pseq)) \ {{}}
        /\ pseq' = pseq
Next == Grow \/ Show
Spec == Init /\ [][Next]_vars

(* the reference stream: nodes by descending number (a topological order),  *)
(* edges from RefTargets; missing edges to external parents without shown   *)
(* ancestors                                                                *)
RefStream(skip) ==
  LET ns == Desc(shown)
      Edges(n) ==
        LET ts == Asc(RefTargetsR(G, shown, n, skip, Bug = "walk_through"))
            ms == Asc({p \in ParentSet(G, n) \ shown : AncOf(G, {p}) \cap shown = {}})
            ds == Asc({t \in GlSeqToSet(ts) : t \in ParentSet(G, n)})
            is == Asc({t \in GlSeqToSet(ts) : t \in ExtReachR(G, shown, n, Bug = "walk_through")})
        IN [k \in 1..Len(ds) |-> <<ds[k], "d">>] \o [k \in 1..Len(is) |-> <<is[k], "i">>]
             \o [k \in 1..Len(ms) |-> <<ms[k], "m">>]
  IN [i \in 1..Len(ns) |-> <<ns[i], Edges(ns[i])>>]

InvReferenceMeetsContract ==
  shown # {} => \A skip \in BOOLEAN : GraphVerdict(G, shown, RefStream(skip), skip) = "ok"
(* skipping only ever drops edges, and never below the transitive reduction *)
InvReduction ==
  shown # {} => \A n \in shown :
     /\ RefTargets(G, shown, n, TRUE) \subseteq RefTargets(G, shown, n, FALSE)
     /\ Heads(G, StrictAncestors(G, n) \cap shown) \subseteq RefTargets(G, shown, n, TRUE)
InvReferenceIsReference ==
  shown # {} => \A skip \in BOOLEAN : Bug = "none" => MatchesReference(G, shown, RefStream(skip), skip)

Case == [par |-> pseq, s |-> Asc(shown)]
EmitInv == shown # {} => PrintT(<<"REPLAY", ToJson(Case)>>)
=============================================================================
