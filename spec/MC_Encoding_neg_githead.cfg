SPECIFICATION Spec
CONSTANTS
  K = 2
  Kinds = {"view"}
  Emit = FALSE
  Bug = "drops_ws_git_head"
INVARIANTS InvView
CHECK_DEADLOCK FALSE
