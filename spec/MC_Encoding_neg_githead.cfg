SPECIFICATION Spec
CONSTANTS
  K = 2
  Kinds = {"view"}
  Emit = FALSE
  RepLevel = 2
  Bug = "drops_ws_git_head"
INVARIANTS InvView
CHECK_DEADLOCK FALSE
