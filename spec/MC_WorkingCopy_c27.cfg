SPECIFICATION Spec
CONSTANTS
  Paths <- StdPaths
  PathOrder <- StdPathOrder
  IgnoreVocab <- StdIgnoreVocab
  Bug = "none"
  MaxSteps = 4
  MaxEditRun = 2
  Acts = {"Write", "Delete", "DirToFile", "CheckOut", "SetSparse", "Snapshot"}
  EditPaths <- SparseEditPaths
  Contents = {2}
  SymTargets = {"out"}
  RootIgnore = {}
  DirIgnore = {}
  TreeIds = {3, 5}
  SparseIds = {1, 2, 3, 4, 5, 6}
  XP = "respect"
  Strict = "none"
  Emit = FALSE
INVARIANTS Inv_Contracts Inv_NoStrayMarker Inv_TreeWellFormed Inv_Outside
VIEW View
CHECK_DEADLOCK FALSE
