SPECIFICATION Spec
CONSTANTS
  Comps = {"a", "ab", "A"}
  MaxDepth = 3
  MaxToks = 3
  MaxNest = 3
  Samples = 2000
  Bug = "none"
  Emit = TRUE
INVARIANTS InvAlgebra InvConfinedToCwd EmitInv
CHECK_DEADLOCK FALSE
