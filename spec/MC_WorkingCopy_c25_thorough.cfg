SPECIFICATION Spec
CONSTANTS
  Paths <- StdPaths
  PathOrder <- StdPathOrder
  IgnoreVocab <- StdIgnoreVocab
  Bug = "none"
  MaxSteps = 5
  MaxEditRun = 2
  Acts = {"Write", "Symlink", "FileToDir", "DirToFile", "Delete", "CheckOut", "Snapshot"}
  EditPaths <- AllEditPaths
  Contents = {1, 2}
  SymTargets = {"out"}
  RootIgnore = {2, 3}
  DirIgnore = {}
  TreeIds = {1, 3, 4, 5, 6}
  SparseIds = {}
  XP = "respect"
  Strict = "none"
  Emit = FALSE
INVARIANTS Inv_Contracts Inv_NoStrayMarker Inv_TreeWellFormed Inv_Outside
VIEW View
CHECK_DEADLOCK FALSE
