----------------------------- MODULE Trace_Stack -----------------------------
(* Judge for C09 replays (checks/c09.py): one record per command run on a    *)
(* TLC-generated stack through the real jj CLI.                              *)
(*   par      the graph before the command (parents per commit, 0 = root)    *)
(*   k, x, sel  the command (squash / squashp / split / absorb on commit x)  *)
(*   before, after  per commit 1..n a token of its tree modulo the           *)
(*            representation of conflicts ("" after = the commit is gone)    *)
(*   gone     commits that no longer exist (squashed away)                   *)
(*   rawsame  whether the raw tree ids of the commits that had to keep their *)
(*            tree are identical too (else: divergence, representation only) *)
(*   changed_exp  commits whose tree changes according to the transcription  *)
EXTENDS Stack, Json, IOUtils

Rec == ndJsonDeserialize(IOEnv.TRACE)

VARIABLE l

ToSet(s) == {s[i] : i \in 1..Len(s)}
TokEq(a, b) == a = b

Verdict(r) ==
  IF r.op # "stack" THEN "harness:unknown-op"
  ELSE IF r.rc # 0 THEN (IF r.after = r.before THEN "ok" ELSE "FailedCommandChangedTrees")
  ELSE
    LET top == IF r.k = "squash" THEN r.par[r.x][1] ELSE r.x IN
    IF r.k = "squash" /\ r.x \notin ToSet(r.gone) THEN "harness:squash-source-still-there"
    ELSE IF ~TopKeptOK(TokEq, r.before, r.after, r.x, top) THEN "TopKeptOK"
    ELSE IF ~DescendantsKeptOK(TokEq, r.par, r.before, r.after, r.x) THEN "DescendantsKeptOK"
    ELSE IF ~OnlyBelowOK(TokEq, r.par, r.before, r.after, r.x, ToSet(r.gone)) THEN "OnlyBelowOK"
    ELSE "ok"

Diverges(r) ==
  /\ r.op = "stack" /\ r.rc = 0
  /\ \/ ~r.rawsame
     \/ {c \in 1..Len(r.par) : c \notin ToSet(r.gone) /\ r.after[c] # r.before[c]} # ToSet(r.changed_exp)

Init == l = 1
Next ==
  \/ /\ l <= Len(Rec)
     /\ LET v == Verdict(Rec[l]) IN
          /\ (IF v = "ok" THEN TRUE ELSE PrintT(<<"BAD", l, v>>))
          /\ (IF Diverges(Rec[l]) THEN PrintT(<<"DIVERGES", l>>) ELSE TRUE)
     /\ l' = l + 1
  \/ /\ l = Len(Rec) + 1
     /\ PrintT(<<"JUDGED", Len(Rec)>>)
     /\ l' = l + 1
Spec == Init /\ [][Next]_l
=============================================================================
