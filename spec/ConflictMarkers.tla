-------------------------- MODULE ConflictMarkers --------------------------
(* Conflict-marker files (lib/src/conflicts.rs).                            *)
(*                                                                          *)
(* Vocabulary.  A text is a sequence of bytes.  A *hunk list* is what       *)
(* files::merge_hunks produces: a sequence of hunks, each a Merge of texts  *)
(* (1 term = resolved text, 2n-1 terms = conflict with n sides; odd         *)
(* positions are sides, even positions bases).  A parse result is           *)
(* [some |-> BOOLEAN, hunks |-> hunk list].                                 *)
(*                                                                          *)
(* THE FORMAT: SpecParse is the definition of what a file with conflict     *)
(* markers means.  It is a line-driven state machine: the outer machine     *)
(* (OuterStep: resolved / in-conflict) consumes one line per step and, at   *)
(* each conflict-end marker, runs one of the two inner machines over the    *)
(* body (JJStep: unknown/diff/remove/add, GitStep: left/base/right).        *)
(*                                                                          *)
(* CONTRACTS                                                                *)
(*   C05 RoundTripOK: the bytes jj materialised mean, under the format, the *)
(*       hunks the merge produced, and jj's own parser reads them back.     *)
(*   C06 UneditedOK / EditAppliedOK: snapshotting the file (update_from_    *)
(*       content) keeps the conflict / applies an edit of a resolved region *)
(*       to every term and keeps the structure (arity restored as in C01).  *)
(* REFERENCE TRANSCRIPTION: SpecMaterialize, RefMarkerLen, DetectCrlf (the  *)
(* writer jj uses today).  MC_ConflictMarkers shows Parse o Materialize =   *)
(* identity on the model; differences of the real writer that still round-  *)
(* trip are divergence, never violations.                                   *)
EXTENDS MergeAlgebra

LF == 10
CR == 13
SP == 32
ChStart  == 60      \* <
ChEnd    == 62      \* >
ChAdd    == 43      \* +
ChRemove == 45      \* -
ChDiff   == 37      \* %
ChNote   == 92      \* \
ChGitAnc == 124     \* |
ChGitSep == 61      \* =
MarkerChars == {ChStart, ChEnd, ChAdd, ChRemove, ChDiff, ChNote, ChGitAnc, ChGitSep}
IsAsciiWs(b) == b \in {9, 10, 12, 13, 32}
MinMarkerLen == 7

Last(s) == s[Len(s)]
Front(s) == SubSeq(s, 1, Len(s) - 1)
RECURSIVE CatFrom(_, _)
CatFrom(ss, i) == IF i > Len(ss) THEN <<>> ELSE ss[i] \o CatFrom(ss, i + 1)
CatAll(ss) == CatFrom(ss, 1)
MaxOf(S, d) == IF S = {} THEN d ELSE CHOOSE x \in S : \A y \in S : y <= x

(* lines with their terminators, as bstr's lines_with_terminator *)
RECURSIVE SplitFrom(_, _, _)
SplitFrom(b, i, s) ==
  IF i > Len(b) THEN (IF s <= Len(b) THEN <<SubSeq(b, s, Len(b))>> ELSE <<>>)
  ELSE IF b[i] = LF THEN <<SubSeq(b, s, i)>> \o SplitFrom(b, i + 1, i + 1)
  ELSE SplitFrom(b, i + 1, s)
Lines(b) == SplitFrom(b, 1, 1)

---------------------------------------------------------------------------
(* Marker lines: one marker character repeated, then end of line or ASCII   *)
(* whitespace.                                                              *)
RECURSIVE Run(_, _)
Run(line, i) == IF i > Len(line) \/ line[i] # line[1] THEN i - 1 ELSE Run(line, i + 1)
NoMarker == [kind |-> 0, len |-> 0]
AnyLenMarker(line) ==
  IF line = <<>> THEN NoMarker
  ELSE IF line[1] \notin MarkerChars THEN NoMarker
  ELSE LET n == Run(line, 1) IN
       IF n < Len(line) /\ ~IsAsciiWs(line[n + 1]) THEN NoMarker
       ELSE [kind |-> line[1], len |-> n]
(* kind of marker of at least the expected length, 0 if none *)
MarkerKind(line, L) ==
  LET m == AnyLenMarker(line) IN IF m.kind # 0 /\ m.len >= L THEN m.kind ELSE 0

---------------------------------------------------------------------------
(* Inner machine 1: jj-style hunk body.                                     *)
JJInit == [mode |-> "unknown", removes |-> <<>>, adds |-> <<>>]
AppendLast(ss, x) == [ss EXCEPT ![Len(ss)] = @ \o x]
JJStep(st, line, L) ==
  IF st.mode = "bad" THEN st
  ELSE LET k == MarkerKind(line, L) IN
    IF k = ChDiff THEN [mode |-> "diff", removes |-> Append(st.removes, <<>>), adds |-> Append(st.adds, <<>>)]
    ELSE IF k = ChRemove THEN [st EXCEPT !.mode = "remove", !.removes = Append(@, <<>>)]
    ELSE IF k = ChAdd THEN [st EXCEPT !.mode = "add", !.adds = Append(@, <<>>)]
    ELSE IF k = ChNote THEN st
    ELSE IF st.mode = "diff" THEN
         IF line[1] = ChRemove THEN [st EXCEPT !.removes = AppendLast(@, Tail(line))]
         ELSE IF line[1] = ChAdd THEN [st EXCEPT !.adds = AppendLast(@, Tail(line))]
         ELSE IF line[1] = SP THEN [st EXCEPT !.removes = AppendLast(@, Tail(line)),
                                              !.adds = AppendLast(@, Tail(line))]
         ELSE IF line = <<LF>> \/ line = <<CR, LF>>      \* editor stripped the leading space
              THEN [st EXCEPT !.removes = AppendLast(@, line), !.adds = AppendLast(@, line)]
         ELSE [st EXCEPT !.mode = "bad"]
    ELSE IF st.mode = "remove" THEN [st EXCEPT !.removes = AppendLast(@, line)]
    ELSE IF st.mode = "add" THEN [st EXCEPT !.adds = AppendLast(@, line)]
    ELSE [st EXCEPT !.mode = "bad"]
ResolvedEmpty == << <<>> >>
Interleave(removes, adds) ==
  [k \in 1..(2 * Len(adds) - 1) |-> IF Odd(k) THEN adds[(k + 1) \div 2] ELSE removes[k \div 2]]
JJFinish(st) ==
  IF st.mode # "bad" /\ Len(st.adds) = Len(st.removes) + 1
  THEN Interleave(st.removes, st.adds) ELSE ResolvedEmpty

(* Inner machine 2: Git "diff3" style body.                                 *)
GitInit == [mode |-> "left", left |-> <<>>, base |-> <<>>, right |-> <<>>]
GitStep(st, line, L) ==
  IF st.mode = "bad" THEN st
  ELSE LET k == MarkerKind(line, L) IN
    IF k = ChGitAnc THEN [st EXCEPT !.mode = IF st.mode = "left" THEN "base" ELSE "bad"]
    ELSE IF k = ChGitSep THEN [st EXCEPT !.mode = IF st.mode = "base" THEN "right" ELSE "bad"]
    ELSE IF st.mode = "left" THEN [st EXCEPT !.left = @ \o line]
    ELSE IF st.mode = "base" THEN [st EXCEPT !.base = @ \o line]
    ELSE [st EXCEPT !.right = @ \o line]
GitFinish(st) == IF st.mode = "right" THEN <<st.left, st.base, st.right>> ELSE ResolvedEmpty

RECURSIVE FoldJJ(_, _, _, _)
FoldJJ(st, body, i, L) == IF i > Len(body) THEN st ELSE FoldJJ(JJStep(st, body[i], L), body, i + 1, L)
RECURSIVE FoldGit(_, _, _, _)
FoldGit(st, body, i, L) == IF i > Len(body) THEN st ELSE FoldGit(GitStep(st, body[i], L), body, i + 1, L)

(* the style is chosen by the first line of the body *)
ParseHunk(body, L) ==
  LET k1 == IF body = <<>> THEN 0 ELSE MarkerKind(body[1], L) IN
  IF k1 \in {ChDiff, ChRemove, ChAdd} THEN JJFinish(FoldJJ(JJInit, body, 1, L))
  ELSE IF k1 = 0 \/ k1 = ChGitAnc THEN GitFinish(FoldGit(GitInit, body, 1, L))
  ELSE ResolvedEmpty

---------------------------------------------------------------------------
(* Outer machine: one step per line of the file.  rstart = first line of    *)
(* the pending resolved text, cstart = line of the open conflict-start      *)
(* marker (0 = not in a conflict).                                          *)
(* regions = <<first line, last line>> of every accepted conflict (start     *)
(* marker through end marker), used to tell edits of resolved text from      *)
(* edits of conflict regions.                                                *)
OuterInit == [hunks |-> <<>>, rstart |-> 1, cstart |-> 0, regions |-> <<>>]
EndsCrlf(line) == Len(line) >= 2 /\ line[Len(line)] = LF /\ line[Len(line) - 1] = CR
(* when the end marker has no EOL the last EOL of every term is only a      *)
(* separator (the EOL that terminated the start-marker line)                *)
StripSep(t, crlf) ==
  IF t # <<>> /\ Last(t) = LF
  THEN LET t1 == Front(t) IN IF crlf /\ t1 # <<>> /\ Last(t1) = CR THEN Front(t1) ELSE t1
  ELSE t
NumSides(hunk) == (Len(hunk) + 1) \div 2
OuterStep(st, lines, i, n, L) ==
  LET k == MarkerKind(lines[i], L) IN
  IF k = ChStart THEN [st EXCEPT !.cstart = i]
  ELSE IF k = ChEnd /\ st.cstart # 0 THEN
    LET hunk0 == ParseHunk(SubSeq(lines, st.cstart + 1, i - 1), L) IN
    IF NumSides(hunk0) = n THEN
      LET resolved == CatAll(SubSeq(lines, st.rstart, st.cstart - 1))
          crlf == EndsCrlf(lines[st.cstart])
          hunk == IF Last(lines[i]) # LF
                  THEN [t \in 1..Len(hunk0) |-> StripSep(hunk0[t], crlf)] ELSE hunk0
      IN [hunks |-> st.hunks \o (IF resolved = <<>> THEN <<>> ELSE << <<resolved>> >>) \o <<hunk>>,
          rstart |-> i + 1, cstart |-> 0, regions |-> Append(st.regions, <<st.cstart, i>>)]
    ELSE [st EXCEPT !.cstart = 0]
  ELSE st
OuterFinish(st, lines) ==
  IF st.hunks = <<>> THEN [some |-> FALSE, hunks |-> <<>>]
  ELSE [some |-> TRUE,
        hunks |-> st.hunks \o (IF st.rstart <= Len(lines)
                               THEN << <<CatAll(SubSeq(lines, st.rstart, Len(lines)))>> >> ELSE <<>>)]
RECURSIVE FoldOuter(_, _, _, _, _)
FoldOuter(st, lines, i, n, L) ==
  IF i > Len(lines) THEN st ELSE FoldOuter(OuterStep(st, lines, i, n, L), lines, i + 1, n, L)

SpecParse(bytes, n, L) ==
  LET lines == Lines(bytes) IN OuterFinish(FoldOuter(OuterInit, lines, 1, n, L), lines)
(* the raw lines (markers, headers and bodies) of every accepted conflict    *)
RawConflicts(bytes, n, L) ==
  LET lines == Lines(bytes)
      st == FoldOuter(OuterInit, lines, 1, n, L)
  IN [k \in 1..Len(st.regions) |-> SubSeq(lines, st.regions[k][1], st.regions[k][2])]

---------------------------------------------------------------------------
(* REFERENCE TRANSCRIPTION of the writer (materialize_conflict_hunks).      *)
Rep(ch, L) == [i \in 1..L |-> ch]
MarkerLine(ch, L, label, eol) == Rep(ch, L) \o label \o eol
PrefixEach(pfx, lines) == CatAll([i \in 1..Len(lines) |-> <<pfx>> \o lines[i]])

(* a line diff of two texts: common leading lines, changed middle, common   *)
(* trailing lines (any valid line diff renders to text that parses back)    *)
RECURSIVE CommonLead(_, _, _)
CommonLead(a, b, i) == IF i > Len(a) \/ i > Len(b) \/ a[i] # b[i] THEN i - 1 ELSE CommonLead(a, b, i + 1)
RECURSIVE CommonTrail(_, _, _, _)
CommonTrail(a, b, p, j) ==     \* j lines already matched at the end, p = leading match
  IF Len(a) - j <= p \/ Len(b) - j <= p \/ a[Len(a) - j] # b[Len(b) - j] THEN j
  ELSE CommonTrail(a, b, p, j + 1)
DiffText(left, right) ==
  LET a == Lines(left)  b == Lines(right)
      p == CommonLead(a, b, 1)
      s == CommonTrail(a, b, p, 0)
  IN PrefixEach(SP, SubSeq(a, 1, p))
     \o PrefixEach(ChRemove, SubSeq(a, p + 1, Len(a) - s))
     \o PrefixEach(ChAdd, SubSeq(b, p + 1, Len(b) - s))
     \o PrefixEach(SP, SubSeq(a, Len(a) - s + 1, Len(a)))

Adds(hunk) == [j \in 1..NumSides(hunk) |-> hunk[2 * j - 1]]
Removes(hunk) == [j \in 1..(NumSides(hunk) - 1) |-> hunk[2 * j]]

WriteSide(t, L, lab, eol) == MarkerLine(ChAdd, L, lab, eol) \o t
WriteBase(t, L, lab, eol) == MarkerLine(ChRemove, L, lab, eol) \o t
WriteDiff(base, add, L, lab, eol) ==
  MarkerLine(ChDiff, L, lab, eol) \o MarkerLine(ChNote, L, lab, eol) \o DiffText(base, add)

(* p: which side is shown as the snapshot in "diff" style (0-based index of *)
(* the base before which it is written; number of bases = written last)     *)
JJBody(hunk, style, p, L, lab, eol) ==
  LET ad == Adds(hunk)  rm == Removes(hunk)  nr == Len(rm) IN
  IF style \in {"snapshot", "git"}
  THEN WriteSide(ad[1], L, lab, eol)
       \o CatAll([i \in 1..nr |-> WriteBase(rm[i], L, lab, eol) \o WriteSide(ad[i + 1], L, lab, eol)])
  ELSE LET q == IF style = "diffexp" THEN 0 ELSE p IN
       CatAll([i \in 1..nr |->
                 IF i <= q THEN WriteDiff(rm[i], ad[i], L, lab, eol)
                 ELSE IF i = q + 1 THEN WriteSide(ad[i], L, lab, eol) \o WriteDiff(rm[i], ad[i + 1], L, lab, eol)
                 ELSE WriteDiff(rm[i], ad[i + 1], L, lab, eol)])
       \o (IF q = nr THEN WriteSide(ad[nr + 1], L, lab, eol) ELSE <<>>)

WriteConflict(hunk0, style, p, L, lab, eol) ==
  LET allEol == \A t \in 1..Len(hunk0) : hunk0[t] = <<>> \/ Last(hunk0[t]) = LF
      hunk == IF allEol THEN hunk0 ELSE [t \in 1..Len(hunk0) |-> hunk0[t] \o eol]
      body == IF style = "git" /\ Len(hunk) = 3
              THEN MarkerLine(ChStart, L, lab, eol) \o hunk[1]
                   \o MarkerLine(ChGitAnc, L, lab, eol) \o hunk[2]
                   \o MarkerLine(ChGitSep, L, <<>>, eol) \o hunk[3]
                   \o Rep(ChEnd, L) \o lab
              ELSE MarkerLine(ChStart, L, lab, eol) \o JJBody(hunk, style, p, L, lab, eol)
                   \o Rep(ChEnd, L) \o lab
  IN body \o (IF allEol THEN eol ELSE <<>>)

SpecMaterialize(hunks, style, p, L, lab, eol) ==
  CatAll([h \in 1..Len(hunks) |->
            IF Len(hunks[h]) = 1 THEN hunks[h][1] ELSE WriteConflict(hunks[h], style, p, L, lab, eol)])

(* choose_materialized_conflict_marker_len *)
LineSet(t) == LET ls == Lines(t) IN {ls[i] : i \in 1..Len(ls)}
MaxMarkerRun(terms) ==
  MaxOf({AnyLenMarker(l).len : l \in UNION {LineSet(terms[t]) : t \in 1..Len(terms)}}, 0)
RefMarkerLen(terms) == LET m == MaxMarkerRun(terms) + 4 IN IF m > MinMarkerLen THEN m ELSE MinMarkerLen

(* detect_eol: CRLF iff every term that has a newline has CR before its     *)
(* first newline                                                            *)
RECURSIVE FirstLF(_, _)
FirstLF(t, i) == IF i > Len(t) THEN 0 ELSE IF t[i] = LF THEN i ELSE FirstLF(t, i + 1)
DetectCrlf(terms) ==
  LET T == {t \in 1..Len(terms) : FirstLF(terms[t], 1) # 0} IN
    /\ T # {}
    /\ \A t \in T : FirstLF(terms[t], 1) > 1 /\ terms[t][FirstLF(terms[t], 1) - 1] = CR

(* each term of the file: resolved text goes to every term *)
TermText(hunks, k) ==
  CatAll([h \in 1..Len(hunks) |-> IF Len(hunks[h]) = 1 THEN hunks[h][1] ELSE hunks[h][k]])

---------------------------------------------------------------------------
(* CONTRACT C05.  mh = merge_hunks(terms) as [res, content, hunks], mat =   *)
(* materialised bytes, n = number of sides, L = marker length used,         *)
(* parsed = jj's parse_conflict(mat, n, L) as [some, hunks].                *)
(* the file jj wrote means, under the format, what the merge produced (a    *)
(* fully resolved merge is written verbatim and is not a conflict file)     *)
WriterOK(mh, mat, n, L) ==
  IF mh.res THEN mat = mh.content /\ ~SpecParse(mat, n, L).some
  ELSE SpecParse(mat, n, L) = [some |-> TRUE, hunks |-> mh.hunks]
(* jj's own parser reads it back *)
ParserOK(mh, parsed) ==
  IF mh.res THEN ~parsed.some
  ELSE parsed = [some |-> TRUE, hunks |-> mh.hunks]

---------------------------------------------------------------------------
(* CONTRACT C06 (update_from_content).  ids: the unsimplified conflict      *)
(* (small ints, 0 = absent); idc[i]: content of ids[i] (<<-1>> = absent);   *)
(* simp: jj's simplified ids; mh: merge_hunks of the simplified contents;   *)
(* mat: what was written to disk; new: what is read back; out/outc: result. *)
Absent == <<-1>>
UneditedOK(ids, out) == out = ids

ConflictHunks(hs) == SelectSeq(hs, LAMBDA h : Len(h) > 1)
(* the edit is confined to resolved regions: the file still parses, and     *)
(* every conflict region (start marker, headers such as the two-line         *)
(* "%%%%%%% diff from: / \\\\\\\        to:" header, bodies, end marker) is byte for  *)
(* byte what was written.  An edit of any marker or header line - even one   *)
(* the parser ignores, like the note line or a label - is therefore NOT in   *)
(* scope, and neither is anything that makes the conflicts parse differently.*)
EditInScope(mh, mat, new, n, L) ==
  /\ ~mh.res
  /\ SpecParse(mat, n, L) = [some |-> TRUE, hunks |-> mh.hunks]
  /\ LET p == SpecParse(new, n, L) IN
       p.some /\ ConflictHunks(p.hunks) = ConflictHunks(mh.hunks)
  /\ RawConflicts(mat, n, L) # <<>>
  /\ RawConflicts(new, n, L) = RawConflicts(mat, n, L)

EditAppliedOK(ids, idc, simp, new, n, L, out, outc) ==
  LET p == SpecParse(new, n, L)
      nv == [j \in 1..Len(simp) |->
               LET t == TermText(p.hunks, j) IN IF simp[j] = 0 /\ t = <<>> THEN Absent ELSE t]
  IN /\ Len(out) = Len(ids)
     /\ Len(simp) = 2 * n - 1
     \* a changed position carries the new text of a simplified term that held its old id
     /\ \A i \in 1..Len(out) :
          out[i] # ids[i] =>
            \E j \in 1..Len(simp) : simp[j] = ids[i] /\ Odd(i) = Odd(j) /\ outc[i] = nv[j]
     \* and the conflict means exactly the edited simplified conflict
     /\ SameDenote(outc, nv)
===========================================================================
