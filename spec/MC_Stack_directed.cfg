SPECIFICATION Spec
CONSTANTS
  Paths = {"a", "b", "c"}
  Contents = {2, 3}
  MaxChange = 2
  Bug = "none"
  Emit = TRUE
  Directed = TRUE
  Shapes <- ShapesGen
INVARIANTS EmitInv InvLaws
CHECK_DEADLOCK FALSE
