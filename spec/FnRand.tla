------------------------------- MODULE FnRand -------------------------------
(* Deterministic pseudo-random choices for the bounded *sampling*          *)
(* generators of the fn/ group (MC_Matchers, MC_Fileset, MC_Grammar ...).  *)
(* TLC's RandomElement is not reproducible in model-checking mode, so the  *)
(* choice is a function of VERIF_SEED (environment) and the coordinates of *)
(* the draw.  All arithmetic stays below 2^31.                         *)
EXTENDS Naturals, Sequences, IOUtils

Seed == IF "VERIF_SEED" \in DOMAIN IOEnv THEN atoi(IOEnv.VERIF_SEED) % 10007 ELSE 0

RndP == 46337                       \* prime; RndP * RndP < 2^31
Mix(x) == (((x * x) % RndP) * 7 + x * 13 + 5) % RndP      \* non-linear: successive ids decorrelate
(* the n-th draw (n >= 1) for coordinates (a, b): a number in 0..RndP-1 *)
Draw(a, b, n) ==
  LET x0 == (Seed * 7 + (a % 20011) * 131 + (b % 1009) * 977 + n * 4099) % RndP
      x1 == (Mix(x0) + n * 1009 + (a % 97) * 389) % RndP
  IN Mix((Mix(x1) + (b % 101) * 211) % RndP)
(* a pseudo-random element of the non-empty sequence s *)
Pick(s, a, b, n) == s[(Draw(a, b, n) % Len(s)) + 1]
=============================================================================
