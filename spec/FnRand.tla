------------------------------- MODULE FnRand -------------------------------
(* Deterministic pseudo-random choices for the bounded *sampling*          *)
(* generators of the fn/ group (MC_Matchers, MC_Fileset, MC_Grammar ...).  *)
(* TLC's RandomElement is not reproducible in model-checking mode, so the  *)
(* choice is a function of VERIF_SEED (environment) and the coordinates of *)
(* the draw.  All arithmetic stays far below 2^31.                         *)
EXTENDS Naturals, Sequences, IOUtils

Seed == IF "VERIF_SEED" \in DOMAIN IOEnv THEN atoi(IOEnv.VERIF_SEED) % 10007 ELSE 0

Lcg(x) == (x * 75 + 74) % 65537
(* the n-th draw (n >= 1) for coordinates (a, b): a number in 0..65536 *)
Draw(a, b, n) ==
  LET x0 == (Seed * 3 + (a % 20011) * 31 + (b % 1009) * 977 + n * 4099) % 65537
  IN Lcg(Lcg(Lcg(x0) + n) % 65537)
(* a pseudo-random element of the non-empty sequence s *)
Pick(s, a, b, n) == s[(Draw(a, b, n) % Len(s)) + 1]
=============================================================================
