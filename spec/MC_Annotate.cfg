SPECIFICATION Spec
CONSTANTS
  MaxCommits = 4
  MaxTokens = 2
  SubDomains = TRUE
  OrderedParents = FALSE
  Bug = "none"
  Emit = TRUE
  RequireMerge = FALSE
INVARIANTS InvWalkMeetsContract InvWalkIsBlame EmitInv
CHECK_DEADLOCK FALSE
