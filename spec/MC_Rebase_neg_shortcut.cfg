SPECIFICATION Spec
CONSTANTS
  LF = {0}
  LD = {0}
  LX = {0, 10}
  LY = {0}
  MaxCommits = 4
  MaxParents = 2
  Accepts = {TRUE}
  Emit = FALSE
  Bug = "none"
  ExcludeShortcut = FALSE
INVARIANTS InvLaws
CHECK_DEADLOCK FALSE
