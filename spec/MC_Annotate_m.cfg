SPECIFICATION Spec
CONSTANTS
  MaxCommits = 4
  MaxTokens = 2
  SubDomains = FALSE
  OrderedParents = FALSE
  Bug = "none"
  Emit = TRUE
  RequireMerge = TRUE
INVARIANTS InvWalkMeetsContract InvWalkIsBlame EmitInv
CHECK_DEADLOCK FALSE
