---------------------------- MODULE MC_RepoGen ----------------------------
(* S->I behaviour generator for the Repo state machine (same actions, same  *)
(* SeededInit as MC_Repo).                                                  *)
EXTENDS MC_Repo, Json

-----------------------------------------------------------------------------
(* S->I behaviour generator.  hist records every action with its arguments  *)
(* and the abstract state after it; a behaviour is printed when it reaches  *)
(* GenOps operations.  hist is hidden from the fingerprint by GenView.       *)
CONSTANT GenOps
VARIABLE hist

ViewJson(v) == [heads |-> SortedSeq(v.heads), bm |-> v.bm, wc |-> v.wc]
NewCommitsJson(n0) ==      \* commits n0+1 .. Len(par') as <<id, parents, chg, dsc, emp>>
  [i \in 1..(Len(par') - n0) |-> <<n0 + i, par'[n0 + i], chg'[n0 + i], dsc'[n0 + i], emp'[n0 + i]>>]
FnJson(f) == [i \in 1..Cardinality(DOMAIN f) |->
                LET k == SortedSeq(DOMAIN f)[i] IN <<k, f[k]>>]
RecsJson(f) == [i \in 1..Cardinality(DOMAIN f) |->
                LET k == SortedSeq(DOMAIN f)[i] IN <<k, f[k].k, f[k].n>>]
(* the abstract state after the step (primed variables) *)
Post ==
  LET v == IF tx'.active THEN tx'.view ELSE ops'[Len(ops')].view IN
  [ncommits |-> Len(par'), new |-> NewCommitsJson(Len(par)),
   view |-> ViewJson(v), vis |-> SortedSeq(AncOf(par', v.heads)),
   preds |-> FnJson(IF tx'.active THEN tx'.preds ELSE ops'[Len(ops')].preds),
   nops |-> Len(ops')]
Log(step) == hist' = Append(hist, step @@ [post |-> Post])

Done == ~tx.active /\ Len(ops) >= GenOps /\ aux.k # "panic"
GenNext ==
  /\ ~Done
  /\ \/ \E o \in 1..Len(ops) : \/ StartTx(o) /\ Log([a |-> "StartTx", o |-> o])
                               \/ Restore(o) /\ Log([a |-> "Restore", o |-> o])
     \/ \E ps \in NewCommitArgs, e \in BOOLEAN : NewCommit(ps, e) /\ Log([a |-> "NewCommit", ps |-> ps, e |-> e])
     \/ \E x \in Vis : \/ \E np \in RewriteParents(x) :
                            RewriteCommit(x, np) /\ Log([a |-> "RewriteCommit", x |-> x, np |-> np])
                       \/ Abandon(x) /\ Log([a |-> "Abandon", x |-> x])
                       \/ Divergent(x) /\ Log([a |-> "Divergent", x |-> x])
     \/ \E i \in 1..2 : \E t \in BookmarkArgs : SetBookmark(i, t) /\ Log([a |-> "SetBookmark", i |-> i, t |-> t])
     \/ \E w \in 1..2 : \/ \E c \in Vis : \/ Edit(w, c) /\ Log([a |-> "Edit", w |-> w, c |-> c])
                                          \/ CheckOut(w, c) /\ Log([a |-> "CheckOut", w |-> w, c |-> c])
                        \/ RemoveWorkspace(w) /\ Log([a |-> "RemoveWorkspace", w |-> w])
     \/ \E e \in EmptyPolicies, d \in BOOLEAN :
          RebaseDescendants(e, d) /\ Log([a |-> "RebaseDescendants", empty |-> e, del |-> d,
                                          rb |-> IF aux'.k = "rebase" THEN RecsJson(aux'.rb) ELSE <<>>])
     \/ Commit /\ Log([a |-> "Commit"])
     \/ \E a, b \in opHeads : MergeHeads(a, b) /\ Log([a |-> "MergeHeads", x |-> a, y |-> b])
GenSpec == SeededInit /\ hist = <<>> /\ [][GenNext]_<<vars, hist>>
GenView == vars
EmitInv == Done => PrintT(<<"REPLAY", ToJson(hist)>>)
=============================================================================
