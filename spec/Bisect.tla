------------------------------ MODULE Bisect ------------------------------
(* jj's bisection engine (lib/src/bisect.rs, Bisector) as a state machine.  *)
(* Property C37.                                                            *)
(*                                                                          *)
(* A problem p = [par, rng, X, S]:                                          *)
(*   par  the commit graph (Dag.tla: node -> ordered parents, topologically *)
(*        numbered); nodes without parents sit on jj's root commit          *)
(*   rng  the input range (a set of nodes)                                  *)
(*   X    the commits of rng that are really bad: monotone (every           *)
(*        descendant in rng of a bad commit is bad) and containing the      *)
(*        heads of rng (the engine assumes them bad without asking)         *)
(*   S    the commits that cannot be judged (the evaluation says "skip")    *)
(* State: good, bad, skipped (as in Bisector), evals (the questions asked,  *)
(* in order), result.                                                       *)
(*   Evaluate(c)   enabled iff c \in Candidates; marks c by Outcome(p, c)   *)
(*   Done          enabled iff Candidates = {}; result as next_step() forms *)
(* CONTRACTS (C37) are the ...OK operators at the end; the candidate rule   *)
(* and the pick rule are the reference transcription.                       *)
EXTENDS Dag, Integers

VARIABLES p, good, bad, skipped, evals, result
bvars == <<p, good, bad, skipped, evals, result>>

(* --- graph helpers on a precomputed ancestor table (own operators; Dag.tla is shared) *)
AncTable(par) == [c \in DOMAIN par |-> AncOf(par, {c})]
AncSet(A, S) == UNION {A[c] : c \in S}
HeadsT(A, S) == {c \in S : ~\E d \in S : d # c /\ c \in A[d]}
RootsT(A, S) == {c \in S : ~\E a \in S : a # c /\ a \in A[c]}
IsLinearT(A, rng) ==       \* the range is one chain
  \A c, d \in rng : c \in A[d] \/ d \in A[c]

MonotoneBadT(A, rng, X) == \A c \in X : \A d \in rng : c \in A[d] => d \in X
MonotoneBad(par, rng, X) == MonotoneBadT(AncTable(par), rng, X)
WellPosed(q) ==
  LET A == AncTable(q.par) IN
  /\ TopoNumbered(q.par)
  /\ q.rng \subseteq DOMAIN q.par /\ q.X \subseteq q.rng /\ q.S \subseteq q.rng
  /\ HeadsT(A, q.rng) \subseteq q.X
  /\ MonotoneBadT(A, q.rng, q.X)

Outcome(q, c) == IF c \in q.S THEN "skip" ELSE IF c \in q.X THEN "bad" ELSE "good"

(* --- reference transcription ------------------------------------------------ *)
(* Bisector::candidates(): input_range & (heads(good)..roots(bad)) ~ bad ~ skipped *)
CandidatesT(A, rng, g, b, s) ==
  (rng \cap (AncSet(A, RootsT(A, b)) \ AncSet(A, HeadsT(A, g)))) \ (b \cup s)
Candidates(q, g, b, s) == CandidatesT(AncTable(q.par), q.rng, g, b, s)

(* candidates.bisect().latest(1): the middle one in index (= numbering) order, newest first *)
RECURSIVE SeqDescending(_)
SeqDescending(S) == IF S = {} THEN <<>>
                    ELSE LET m == CHOOSE x \in S : \A y \in S : y <= x IN <<m>> \o SeqDescending(S \ {m})
RefPick(C) == SeqDescending(C)[(Cardinality(C) \div 2) + 1]

(* skipped parents reachable from the first bad commits through skipped commits *)
RECURSIVE PossiblyBad(_, _, _)
PossiblyBad(par, frontier, s) ==
  LET nxt == (UNION {ParentSet(par, c) : c \in frontier}) \cap s IN
  IF nxt \subseteq frontier THEN frontier \cap s ELSE PossiblyBad(par, frontier \cup nxt, s)

RefResult(q, b, s) ==
  LET A == AncTable(q.par)
      r == RootsT(A, b)
      pb == PossiblyBad(q.par, r, s) \ r
  IN IF r = {} THEN [kind |-> "indeterminate", bad |-> {}, possibly |-> {}]
     ELSE IF pb = {} THEN [kind |-> "found", bad |-> r, possibly |-> {}]
     ELSE [kind |-> "found_despite_skips", bad |-> r, possibly |-> pb]

NoResult == [kind |-> "none", bad |-> {}, possibly |-> {}]

BInit(q) ==
  /\ p = q
  /\ good = {} /\ bad = Heads(q.par, q.rng) /\ skipped = {}
  /\ evals = <<>> /\ result = NoResult

(* the same as an action (a new bisection starts) *)
BStart(q) ==
  /\ p' = q
  /\ good' = {} /\ bad' = Heads(q.par, q.rng) /\ skipped' = {}
  /\ evals' = <<>> /\ result' = NoResult

Mark(c) ==
  LET o == Outcome(p, c) IN
  /\ good' = IF o = "good" THEN good \cup {c} ELSE good
  /\ bad' = IF o = "bad" THEN bad \cup {c} ELSE bad
  /\ skipped' = IF o = "skip" THEN skipped \cup {c} ELSE skipped
  /\ evals' = Append(evals, c)

Evaluate(c) ==
  /\ result.kind = "none"
  /\ c \in Candidates(p, good, bad, skipped)
  /\ Mark(c)
  /\ UNCHANGED <<p, result>>

Done ==
  /\ result.kind = "none"
  /\ Candidates(p, good, bad, skipped) = {}
  /\ result' = RefResult(p, bad, skipped)
  /\ UNCHANGED <<p, good, bad, skipped, evals>>

(* --- CONTRACTS --------------------------------------------------------------- *)
NoRepeat(ev) == \A i, j \in 1..Len(ev) : i # j => ev[i] # ev[j]
AsksInsideRange(q, ev) == \A i \in 1..Len(ev) : ev[i] \in q.rng
FirstBad(q) == RootsT(AncTable(q.par), q.X)

(* Shape of the known finding (DESIGN 7): two incomparable first-bad commits *)
(* below one head of the range.                                             *)
TwoFirstBadUnderOneHead(q) ==
  LET A == AncTable(q.par)  fb == RootsT(A, q.X) IN
  \E h \in HeadsT(A, q.rng) : \E r1, r2 \in fb : r1 # r2 /\ r1 \in A[h] /\ r2 \in A[h]

CeilLog2(n) == CHOOSE k \in 0..32 : 2^k >= n /\ (k = 0 \/ 2^(k - 1) < n)

(* verdict on a finished run: the first failing clause, or "ok" *)
RunVerdict(q, ev, res) ==
  LET fb == FirstBad(q) IN
  IF ~NoRepeat(ev) THEN "NeverAsksTwice"
  ELSE IF ~AsksInsideRange(q, ev) THEN "AsksInsideRange"
  ELSE IF q.S = {} /\ q.rng # {} /\ res.kind # "found" THEN "FindsWithoutSkips"
  ELSE IF q.S = {} /\ q.rng # {} /\ (res.bad = {} \/ ~(res.bad \subseteq fb)) THEN "ReportedAreFirstBad"
  ELSE IF q.S = {} /\ q.rng # {} /\ res.bad # fb THEN "ReportsAllFirstBad"
  ELSE IF q.S = {} /\ q.rng # {} /\ IsLinearT(AncTable(q.par), q.rng)
          /\ Len(ev) > CeilLog2(Cardinality(q.rng)) + 1 THEN "LogStepsOnLinearRange"
  ELSE IF q.S # {} /\ ~(res.bad \subseteq q.X) THEN "NeverNamesGoodAsBad"
  ELSE "ok"
=============================================================================
