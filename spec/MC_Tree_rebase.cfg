SPECIFICATION Spec
CONSTANTS
  LF = {0, 10, 20}
  LD = {0, 10, 11}
  LX = {0, 10, 20}
  LY = {0, 1}
  MaxTerms = 3
  Nested = FALSE
  Accepts = {TRUE, FALSE}
  ExcludeFinding = TRUE
  Bug = "none"
  Emit = FALSE
  EmitMin = 1
INVARIANTS InvRebaseLaws
CHECK_DEADLOCK FALSE
