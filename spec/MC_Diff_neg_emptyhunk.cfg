SPECIFICATION Spec
CONSTANTS
  Alphabet = {97, 32, 10}
  MaxLen = 3
  MaxInputs = 3
  Bug = "emptyhunk"
INVARIANTS InvCovers InvMatching InvNonEmpty InvAlternate InvReconstruct InvCmp
CHECK_DEADLOCK FALSE
