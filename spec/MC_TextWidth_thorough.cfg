SPECIFICATION Spec
CONSTANTS
  MaxLen = 5
  MaxWrapLen = 6
  MaxDifferLen = 3
  MaxW = 7
  Kinds = {"shorten", "wrap", "differ"}
  Emit = TRUE
  Bug = "none"
INVARIANTS InvElide InvTruncate InvPad InvWrap InvMeasures EmitInv
CHECK_DEADLOCK FALSE
