------------------------ MODULE Trace_IndexSegments ------------------------
(* I->S judge for C18: every record is what the REAL index answered at one  *)
(* point of a history (jjconf `index hist|long`): inside the open           *)
(* transaction ("mut"), on the committed repo ("mem"), after a reload from  *)
(* disk ("reload"), after merging operations ("merge"/"head").  TLC judges  *)
(* every answer against the Dag operators through the contracts of          *)
(* IndexSegments.  Differences from the reference squash rule (segment      *)
(* sizes) are reported as divergence only.                                  *)
EXTENDS IndexSegments, Json, IOUtils, TLC

Rec == ndJsonDeserialize(IOEnv.TRACE)

VARIABLE l

FirstBad(r) ==
  LET G == GraphOf(r.par)
      am == AncMap(G)
      gs == GenSeq(G)
      K == SeqToSet(r.known)
      VH == SeqToSet(r.vheads)
      chgOf == [c \in 0..Len(r.par) |-> IF c = 0 THEN 0 ELSE r.chg[c]]
  IN
  IF ~NoDup(r.known) \/ ~(K \subseteq DOMAIN G) \/ ~(VH \subseteq DOMAIN G) THEN "harness:bad-ids"
  ELSE IF ~TopoNumbered(G) THEN "harness:not-topological"
  ELSE IF ~IndexedSetOK(am, K, VH) THEN "IndexedSetOK"
  ELSE IF r.exp_known # <<>> /\ SeqToSet(r.exp_known) # K THEN "IndexedSetOK"
  ELSE IF \E i \in 1..Len(r.isanc) : ~IsAncestorOK(am, r.isanc[i][1], r.isanc[i][2], r.isanc[i][3])
       THEN "IsAncestorOK"
  ELSE IF \E i \in 1..Len(r.gen) : ~GenerationOK(gs, r.gen[i][1], r.gen[i][2]) THEN "GenerationOK"
  ELSE IF \E i \in 1..Len(r.heads) : ~HeadsOK(am, r.heads[i].s, r.heads[i].out) THEN "HeadsOK"
  ELSE IF \E i \in 1..Len(r.ca) : ~CommonAncestorsOK(am, r.ca[i].a, r.ca[i].b, r.ca[i].out)
       THEN "CommonAncestorsOK"
  ELSE IF \E i \in 1..Len(r.chgq) : ~ChangeLookupOK(am, K, chgOf, VH, r.chgq[i].chg, r.chgq[i].out)
       THEN "ChangeLookupOK"
  ELSE IF r.mode # "mut" /\ r.ncommits # Cardinality(K) + r.extra THEN "IndexedSetOK"
  ELSE "ok"

Verdict(r) ==
  IF r.op = "obs" THEN FirstBad(r)
  ELSE IF r.op = "panic" THEN "Panic"
  ELSE "harness:unknown-op"

(* reference squash rule: reported, never a violation *)
Diverges(r) ==
  /\ r.op = "obs" /\ r.mode # "mut" /\ r.levels # <<>>
  /\ IF r.exp_levels # <<>> THEN r.levels # r.exp_levels
     ELSE /\ r.a = "commit" /\ r.base_levels # <<>> /\ r.mode \in {"mem", "reload"}
          /\ r.levels # SaveLevels(r.base_levels, r.added)

Init == l = 1
Next ==
  \/ /\ l <= Len(Rec)
     /\ LET v == Verdict(Rec[l]) IN
          /\ (IF v = "ok" THEN TRUE ELSE PrintT(<<"BAD", l, v>>))
          /\ (IF Diverges(Rec[l]) THEN PrintT(<<"DIVERGES", l>>) ELSE TRUE)
     /\ l' = l + 1
  \/ /\ l = Len(Rec) + 1
     /\ PrintT(<<"JUDGED", Len(Rec)>>)
     /\ l' = l + 1
Spec == Init /\ [][Next]_l
=============================================================================
