SPECIFICATION Spec
CONSTANTS
  NB = 2
  Par <- MC_Par4
  OtherOnly = {4}
  MaxSteps = 0
  MaxTerms = 5
  Emit = "none"
  FillChoices <- MC_Fill0
  Bug = "none"
CONSTRAINT Small
VIEW View
INVARIANTS TypeOK InvStep InvNoLostUpdate InvTrackKnown
CHECK_DEADLOCK FALSE
