---------------------------- MODULE Trace_OpHeads ----------------------------
(* I->S binding for C14: validates runs of the real op-heads code (real     *)
(* threads scheduled step by step, see harness opheads.rs) against the      *)
(* actions of OpHeads and evaluates the C14 invariants in every state.      *)
(* One TLC run judges many cases; a "reset" event starts a new case.        *)
(*                                                                          *)
(* Contracts judge, transcriptions explain: a step that no action of the    *)
(* specification explains is NOT a violation by itself (a refactoring may   *)
(* read the directory once more, or remove files in another order).  It is  *)
(* reported as divergence (<<"DIVERGES", l>>), the process is from then on   *)
(* "free": its logged effects on the directory are applied as they are, and *)
(* the invariants keep being evaluated on the real directory contents after *)
(* every step.  Only an invariant failure (or a process that failed, a      *)
(* deadlock, a case that did not complete) is a violation.                  *)
EXTENDS OpHeads, Json, IOUtils, TLC

Rec == ndJsonDeserialize(IOEnv.TRACE)

VARIABLES l, ok, free
tvars == <<vars, l, ok, free>>

ToSet(s) == {s[i] : i \in 1..Len(s)}
StepEvents == {"read", "lock", "add", "remove", "unlock", "crash"}

Match(e) ==
  /\ e.p \in AllProcs /\ e.p \notin free
  /\ \/ e.a = "read" /\ (Read1(e.p) \/ Read2(e.p))
     \/ e.a = "lock" /\ (RLock(e.p) \/ PLock(e.p))
     \/ e.a = "add" /\ (RAdd(e.p, e.op) \/ PAdd(e.p, e.op)) /\ ops'[e.op] = ToSet(e.parents)
     \/ e.a = "remove" /\ (RRm(e.p, e.op) \/ (PRm(e.p) /\ base[e.p] = e.op))
     \/ e.a = "unlock" /\ (RUnlock(e.p) \/ PUnlock(e.p))
     \/ e.a = "crash" /\ Crash(e.p)
  /\ heads' = ToSet(e.heads)            \* the real directory listing after the step

(* the logged effect of a step of a free process, applied as it is *)
Apply(e) ==
  /\ heads' = ToSet(e.heads)
  /\ IF e.a = "add" /\ e.op >= 0
     THEN /\ ops' = [x \in DOMAIN ops \cup {e.op} |-> IF x = e.op /\ x \notin DOMAIN ops THEN ToSet(e.parents) ELSE ops[x]]
          /\ published' = published \cup {e.op}
     ELSE UNCHANGED <<ops, published>>
  /\ pc' = [pc EXCEPT ![e.p] = IF e.a = "crash" THEN "crashed" ELSE "free"]
  /\ lock' = IF lock = e.p /\ e.a \in {"unlock", "crash"} THEN NoProc ELSE lock
  /\ UNCHANGED <<base, new, mpar, rm, cmds, crashes>>

(* C14 on the real directory contents (FinalOK is judged at the "end" event) *)
FirstBroken ==
  IF ~NonEmptyHeads THEN "NonEmptyHeads"
  ELSE IF ~HeadsExist THEN "HeadsExist"
  ELSE IF ~PublishedReachable THEN "PublishedReachable"
  ELSE "ok"

TInit == Init /\ l = 1 /\ ok = FALSE /\ free = {}

Reset ==
  /\ l <= Len(Rec) /\ Rec[l].a = "reset"
  /\ ops' = [x \in {0} |-> {}]
  /\ heads' = {0}
  /\ lock' = NoProc
  /\ published' = {0}
  /\ pc' = [p \in AllProcs |-> IF p = Final \/ p \in ToSet(Rec[l].procs) THEN "read1" ELSE "done"]
  /\ base' = [p \in AllProcs |-> NoOp]
  /\ new' = [p \in AllProcs |-> NoOp]
  /\ mpar' = [p \in AllProcs |-> {}]
  /\ rm' = [p \in AllProcs |-> {}]
  /\ cmds' = [p \in AllProcs |-> 0]
  /\ crashes' = 0
  /\ ok' = TRUE /\ l' = l + 1 /\ free' = {}

TStep ==
  /\ ok /\ l <= Len(Rec) /\ Rec[l].a \in StepEvents
  /\ Match(Rec[l])
  /\ (IF FirstBroken' = "ok" THEN TRUE ELSE PrintT(<<"BAD", l, FirstBroken'>>))
  /\ ok' = TRUE /\ l' = l + 1 /\ UNCHANGED free

(* a step the specification's actions do not explain: divergence, not a violation *)
Unmodelled ==
  /\ ok /\ l <= Len(Rec) /\ Rec[l].a \in StepEvents
  /\ ~ENABLED Match(Rec[l])
  /\ (IF Rec[l].p \in free THEN TRUE ELSE PrintT(<<"DIVERGES", l>>))
  /\ Apply(Rec[l])
  /\ (IF FirstBroken' = "ok" THEN TRUE ELSE PrintT(<<"BAD", l, FirstBroken'>>))
  /\ free' = free \cup {Rec[l].p}
  /\ ok' = TRUE /\ l' = l + 1

(* a process failed (e.g. "Corrupt repository: no head operation") or nobody *)
(* can move: violations                                                     *)
Anomaly ==
  /\ ok /\ l <= Len(Rec) /\ Rec[l].a \in {"failed", "deadlock"}
  /\ PrintT(<<"BAD", l, IF Rec[l].a = "failed" THEN "ProcessFailed" ELSE "Deadlock">>)
  /\ ok' = FALSE /\ l' = l + 1 /\ UNCHANGED <<vars, free>>

(* the schedule named a process that could not move: the code takes a       *)
(* different number of steps than the model - divergence, not a violation   *)
Infeasible ==
  /\ ok /\ l <= Len(Rec) /\ Rec[l].a = "infeasible"
  /\ PrintT(<<"DIVERGES", l>>)
  /\ l' = l + 1 /\ UNCHANGED <<vars, ok, free>>

(* end of a case: once activity stopped and the repository was loaded there  *)
(* is a single head that descends from every published operation            *)
End ==
  /\ ok /\ l <= Len(Rec) /\ Rec[l].a = "end"
  /\ (IF Rec[l].final_ok /\ Cardinality(heads) = 1
         /\ (\A o \in published : \A h \in heads : IsAnc(ops, o, h))
      THEN TRUE ELSE PrintT(<<"BAD", l, "FinalOK">>))
  /\ l' = l + 1 /\ UNCHANGED <<vars, ok, free>>

Skip ==
  /\ ~ok /\ l <= Len(Rec) /\ Rec[l].a # "reset"
  /\ l' = l + 1 /\ UNCHANGED <<vars, ok, free>>

Finish ==
  /\ l = Len(Rec) + 1
  /\ PrintT(<<"JUDGED", Len(Rec)>>)
  /\ l' = l + 1 /\ UNCHANGED <<vars, ok, free>>

TNext == Reset \/ TStep \/ Unmodelled \/ Anomaly \/ Infeasible \/ End \/ Skip \/ Finish
TSpec == TInit /\ [][TNext]_tvars
=============================================================================
