---------------------------- MODULE Trace_OpHeads ----------------------------
(* I->S binding for C14: validates runs of the real op-heads code (real     *)
(* threads scheduled step by step, see harness opheads.rs) against the      *)
(* actions of OpHeads and evaluates the C14 invariants in every state.      *)
(* One TLC run judges many cases; a "reset" event starts a new case.  A     *)
(* step that no action of the specification explains is reported            *)
(* (<<"BAD", l, "NoMatchingAction">>) and the rest of that case is skipped. *)
EXTENDS OpHeads, Json, IOUtils, TLC

Rec == ndJsonDeserialize(IOEnv.TRACE)

VARIABLES l, ok
tvars == <<vars, l, ok>>

ToSet(s) == {s[i] : i \in 1..Len(s)}
StepEvents == {"read", "lock", "add", "remove", "unlock", "crash"}

Match(e) ==
  /\ e.p \in AllProcs
  /\ (e.p = Final => Quiet)
  /\ \/ e.a = "read" /\ (Read1(e.p) \/ Read2(e.p))
     \/ e.a = "lock" /\ (RLock(e.p) \/ PLock(e.p))
     \/ e.a = "add" /\ (RAdd(e.p, e.op) \/ PAdd(e.p, e.op)) /\ ops'[e.op] = ToSet(e.parents)
     \/ e.a = "remove" /\ (RRm(e.p, e.op) \/ (PRm(e.p) /\ base[e.p] = e.op))
     \/ e.a = "unlock" /\ (RUnlock(e.p) \/ PUnlock(e.p))
     \/ e.a = "crash" /\ Crash(e.p)
  /\ heads' = ToSet(e.heads)            \* the real directory listing after the step

FirstBroken ==
  IF ~NonEmptyHeads THEN "NonEmptyHeads"
  ELSE IF ~PublishedReachable THEN "PublishedReachable"
  ELSE IF ~HeadsExist THEN "HeadsExist"
  ELSE IF ~NoFailure THEN "NoFailure"
  ELSE IF ~FinalOK THEN "FinalOK"
  ELSE "ok"

TInit == Init /\ l = 1 /\ ok = FALSE

Reset ==
  /\ l <= Len(Rec) /\ Rec[l].a = "reset"
  /\ ops' = [x \in {0} |-> {}]
  /\ heads' = {0}
  /\ lock' = NoProc
  /\ published' = {0}
  /\ pc' = [p \in AllProcs |-> IF p = Final \/ p \in ToSet(Rec[l].procs) THEN "read1" ELSE "done"]
  /\ base' = [p \in AllProcs |-> NoOp]
  /\ new' = [p \in AllProcs |-> NoOp]
  /\ mpar' = [p \in AllProcs |-> {}]
  /\ rm' = [p \in AllProcs |-> {}]
  /\ cmds' = [p \in AllProcs |-> 0]
  /\ crashes' = 0
  /\ ok' = TRUE /\ l' = l + 1

TStep ==
  /\ ok /\ l <= Len(Rec) /\ Rec[l].a \in StepEvents
  /\ Match(Rec[l])
  /\ (IF FirstBroken' = "ok" THEN TRUE ELSE PrintT(<<"BAD", l, FirstBroken'>>))
  /\ ok' = TRUE /\ l' = l + 1

Mismatch ==
  /\ ok /\ l <= Len(Rec) /\ Rec[l].a \in StepEvents
  /\ ~ENABLED Match(Rec[l])
  /\ PrintT(<<"BAD", l, "NoMatchingAction">>)
  /\ ok' = FALSE /\ l' = l + 1 /\ UNCHANGED vars

(* harness-level anomalies are violations too *)
Anomaly ==
  /\ ok /\ l <= Len(Rec) /\ Rec[l].a \in {"failed", "deadlock", "infeasible"}
  /\ PrintT(<<"BAD", l, IF Rec[l].a = "failed" THEN "ProcessFailed"
                        ELSE IF Rec[l].a = "deadlock" THEN "Deadlock" ELSE "ScheduleInfeasible">>)
  /\ ok' = FALSE /\ l' = l + 1 /\ UNCHANGED vars

(* end of a case: the final loader must have finished and FinalOK holds *)
End ==
  /\ ok /\ l <= Len(Rec) /\ Rec[l].a = "end"
  /\ (IF pc[Final] = "done" /\ Rec[l].final_ok /\ (\A p \in Procs : pc[p] \in {"done", "crashed"})
      THEN TRUE ELSE PrintT(<<"BAD", l, "CaseDidNotComplete">>))
  /\ l' = l + 1 /\ UNCHANGED <<vars, ok>>

Skip ==
  /\ ~ok /\ l <= Len(Rec) /\ Rec[l].a # "reset"
  /\ l' = l + 1 /\ UNCHANGED <<vars, ok>>

Finish ==
  /\ l = Len(Rec) + 1
  /\ PrintT(<<"JUDGED", Len(Rec)>>)
  /\ l' = l + 1 /\ UNCHANGED <<vars, ok>>

TNext == Reset \/ TStep \/ Mismatch \/ Anomaly \/ End \/ Skip \/ Finish
TSpec == TInit /\ [][TNext]_tvars
=============================================================================
