SPECIFICATION Spec
CONSTANTS
  K = 2
  Kinds = {"view"}
  Emit = FALSE
  RepLevel = 2
  Bug = "simplifies_targets"
INVARIANTS InvView
CHECK_DEADLOCK FALSE
