---------------------------- MODULE MC_Durability ----------------------------
(* Design check: EVERY sequence of durable effects that respects the        *)
(* ordering guards G1..G5 is crash-safe in every state (a crash may happen   *)
(* anywhere).  Operations: a start head 1 and up to two operations written   *)
(* by the command (snapshot operation 2, command operation 3), plus an       *)
(* unrelated concurrent-looking chain is not needed: one process.           *)
EXTENDS Durability, TLC

CONSTANT MaxSteps
VARIABLE steps

Par == (1 :> {}) @@ (2 :> {1}) @@ (3 :> {2})
VO == (1 :> 11) @@ (2 :> 12) @@ (3 :> 13)
MCInit == /\ par = Par /\ viewOf = VO /\ objs = {1} /\ views = {11} /\ heads = {1} /\ startHeads = {1}
          /\ written = {} /\ wcPhase = "clean" /\ wcStaleOk = FALSE /\ steps = 0
MCNext ==
  /\ steps < MaxSteps /\ steps' = steps + 1
  /\ \/ \E v \in {12, 13} : PersistView(v)
     \/ \E o \in {2, 3} : o \notin objs /\ par[o] \subseteq objs /\ PersistOp(o)
     \/ \E o \in {2, 3} : HeadAdd(o)
     \/ \E o \in {1, 2, 3} : HeadRemove(o)
     \/ WcTouch \/ SaveTreeState \/ SaveCheckout
MCSpec == MCInit /\ [][MCNext]_<<vars, steps>>
=============================================================================
