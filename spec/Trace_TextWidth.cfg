SPECIFICATION Spec
CONSTANT Bug = "none"
CHECK_DEADLOCK FALSE
