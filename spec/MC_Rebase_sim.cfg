SPECIFICATION Spec
CONSTANTS
  LF = {0, 100, 130, 110}
  LD = {0, 10}
  LX = {0, 10, 20}
  LY = {0}
  MaxCommits = 6
  MaxParents = 3
  Accepts = {TRUE, FALSE}
  Emit = TRUE
  Bug = "none"
  ExcludeShortcut = TRUE
INVARIANTS InvLaws EmitInv
CHECK_DEADLOCK FALSE
