SPECIFICATION Spec
CONSTANTS
  Paths <- StdPaths
  PathOrder <- StdPathOrder
  IgnoreVocab <- StdIgnoreVocab
  Bug = "none"
  MaxSteps = 6
  MaxEditRun = 2
  Acts = {"Write", "FileToDir", "DirToFile", "Snapshot", "CheckOut"}
  EditPaths <- IgnoreEditPaths
  Contents = {2}
  SymTargets = {"f"}
  RootIgnore = {7}
  DirIgnore = {}
  TreeIds = {1, 4}
  SparseIds = {}
  XP = "respect"
  Strict = "all"
  Emit = FALSE
INVARIANTS Inv_C23
VIEW View
CHECK_DEADLOCK FALSE
