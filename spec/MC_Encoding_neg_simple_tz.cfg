SPECIFICATION Spec
CONSTANTS
  K = 2
  Kinds = {"commit"}
  Emit = FALSE
  RepLevel = 2
  Bug = "simple_drops_tz"
INVARIANTS InvCommit
CHECK_DEADLOCK FALSE
