SPECIFICATION Spec
CONSTANTS
  K = 2
  Kinds = {"commit"}
  Emit = FALSE
  Bug = "simple_drops_tz"
INVARIANTS InvCommit
CHECK_DEADLOCK FALSE
