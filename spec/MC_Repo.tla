------------------------------ MODULE MC_Repo ------------------------------
(* Bounded model of the Repo state machine: TLC checks the C10/C11/C13/C46  *)
(* contracts as invariants over every behaviour within the bounds.          *)
(* MC_RepoGen (EXTENDS this module) generates behaviours for the S->I       *)
(* replay.                                                                  *)
(*                                                                          *)
(* SeededInit starts from a small committed history (what `jj new` leaves): *)
(*   1 root <- 2 <- 3 <- 4(empty, undescribed: working copy of w1),         *)
(*   bookmark b1 at 3, workspace w2 absent, and a HIDDEN commit 5 on 3      *)
(*   (created and abandoned by the seeding operation: known to the index,   *)
(*   not visible) so that "new commit on a hidden parent" is one step away  *)
(* so that the bounded exploration spends its depth on rewrites,            *)
(* concurrency and reconciliation instead of on building a history.         *)
EXTENDS Repo

SeedView == [heads |-> {4}, bm |-> <<<<3>>, <<Absent>>>>, wc |-> <<4, 0>>]
SeededInit ==
  /\ par = <<<<>>, <<1>>, <<2>>, <<3>>, <<3>>>> /\ chg = <<0, 1, 2, 3, 4>> /\ dsc = <<0, 1, 2, 0, 3>>
  /\ emp = <<TRUE, FALSE, FALSE, TRUE, FALSE>>
  /\ ops = <<[parents |-> <<>>, view |-> RootView, preds |-> <<>>],
             [parents |-> <<1>>, view |-> SeedView, preds |-> (2 :> <<>>) @@ (3 :> <<>>) @@ (4 :> <<>>) @@ (5 :> <<>>)]>>
  /\ opHeads = {2} /\ tx = NoTx /\ aux = NoAux
SeededSpec == SeededInit /\ [][Next]_vars

StateConstraint == Len(par) <= MaxCommits /\ Len(ops) <= MaxOps + 1

=============================================================================
