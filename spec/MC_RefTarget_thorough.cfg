SPECIFICATION Spec
CONSTANTS
  MaxConflicted = 3
  Bug = "none"
INVARIANTS InvRefMerge InvFixpoint
CHECK_DEADLOCK FALSE
