SPECIFICATION Spec
CONSTANTS
  NumTerms = 3
  MaxLines = 1
  NFull = 7
  NOpen = 3
  UseCrlf = TRUE
  Bug = "none"
INVARIANTS InvRoundTrip InvEditResolved InvMarkerLen
CHECK_DEADLOCK FALSE
