SPECIFICATION Spec
CONSTANTS
  NumTerms = 5
  MaxLines = 1
  NFull = 4
  NOpen = 2
  UseCrlf = FALSE
  Bug = "none"
INVARIANTS InvRoundTrip InvEditResolved InvMarkerLen
CHECK_DEADLOCK FALSE
