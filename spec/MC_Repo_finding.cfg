SPECIFICATION SeededSpec
CONSTANTS
  MaxCommits = 8
  MaxOps = 3
  MaxActs = 2
  EmptyPolicies = {"keep", "all"}
  AllowFinding = TRUE
  Bug = "none"
INVARIANTS InvC10 InvC11 InvC13 InvC46 InvNoPanic
CHECK_DEADLOCK FALSE
