SPECIFICATION SimSpec
CONSTANTS
  LF = {0, 10}
  LD = {0, 10, 1}
  LX = {0, 20, 100}
  LY = {0, 30}
  MaxTerms = 7
  Nested = TRUE
  Accepts = {TRUE, FALSE}
  ExcludeFinding = TRUE
  Bug = "none"
  Emit = TRUE
  EmitMin = 5
INVARIANTS InvContract InvResolveIdempotent EmitInv
CHECK_DEADLOCK FALSE
