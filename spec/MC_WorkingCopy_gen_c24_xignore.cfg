SPECIFICATION Spec
CONSTANTS
  Paths <- StdPaths
  PathOrder <- StdPathOrder
  IgnoreVocab <- StdIgnoreVocab
  Bug = "none"
  MaxSteps = 8
  MaxEditRun = 3
  Acts = {"CheckOut", "Snapshot", "SetSparse", "Chmod"}
  EditPaths <- AllEditPaths
  Contents = {1, 2}
  SymTargets = {"out", "f", "out/x"}
  RootIgnore = {1, 2, 3, 4, 7}
  DirIgnore = {3, 5, 6}
  TreeIds = {1, 2, 3, 4, 5, 6, 7, 8, 9, 10, 11, 12, 13, 14, 15, 16, 17, 18}
  SparseIds = {1, 2, 3, 4, 5, 6}
  XP = "ignore"
  Strict = "none"
  Emit = TRUE
INVARIANTS EmitInv
CHECK_DEADLOCK FALSE
