SPECIFICATION Spec
CONSTANTS
  MaxCommits = 5
  MaxParents = 3
  Bug = "none"
INVARIANTS InvReferenceMeetsContract InvReduction InvReferenceIsReference EmitInv
CHECK_DEADLOCK FALSE
