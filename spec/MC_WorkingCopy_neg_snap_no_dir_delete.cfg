SPECIFICATION Spec
CONSTANTS
  Paths <- StdPaths
  PathOrder <- StdPathOrder
  IgnoreVocab <- StdIgnoreVocab
  Bug = "snap-no-dir-delete"
  MaxSteps = 5
  MaxEditRun = 3
  Acts = {"Write", "Chmod", "Delete", "FileToDir", "DirToFile", "Symlink", "Snapshot", "CheckOut"}
  EditPaths <- AllEditPaths
  Contents = {1, 2}
  SymTargets = {"f"}
  RootIgnore = {2, 3}
  DirIgnore = {5}
  TreeIds = {7, 9}
  SparseIds = {}
  XP = "respect"
  Strict = "none"
  Emit = FALSE
INVARIANTS Inv_C23
VIEW View
CHECK_DEADLOCK FALSE
