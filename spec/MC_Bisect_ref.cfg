SPECIFICATION Spec
CONSTANTS
  MaxNodes = 5
  Shape = "any"
  SubRanges = FALSE
  WithSkips = FALSE
  Engine = "ref"
  ExcludeFinding = TRUE
  Bug = "none"
  Emit = FALSE
INVARIANTS InvNoRepeat InvVerdict InvProgress EmitInv
CHECK_DEADLOCK FALSE
