---------------------------- MODULE MC_Encoding ----------------------------
(* Design-level check and family generator for C16/C17.                     *)
(*                                                                          *)
(* A value (view / operation / commit) is assembled from independent        *)
(* *slots*; every slot has a small set of variants covering the classes of  *)
(* DESIGN section 4 (C16: 0/1/2 heads, absent / normal / 3-term with absent *)
(* add / with absent remove / 5-term targets, remote refs x {new, tracked}  *)
(* x {absent, present, conflicted}, tags, git refs, git heads for default   *)
(* and non-default workspace, 0/1/2 workspaces; C17: parents, conflicted    *)
(* root trees with labels, change-id lengths, string classes, timestamp and *)
(* time-zone classes).  The family is every assignment that differs from    *)
(* one of two base assignments (a sparse and a rich one) in at most K       *)
(* slots: K = 2 gives every pair of variants of two slots (pairwise         *)
(* coverage), K = 3 every triple.  The domain is grown by Next so TLC's     *)
(* workers share it; the state IS the slot assignment.                      *)
(*                                                                          *)
(* Invariants: the reference transcriptions of Encoding meet the laws on    *)
(* every family member.  EmitInv prints each member once (S->I generator).  *)
EXTENDS Encoding, TLC, Json

CONSTANTS K,        \* max number of slots changed w.r.t. a base
          Kinds,    \* subset of {"view", "op", "commit", "blob", "tree"}
          Emit,     \* TRUE: print <<"REPLAY", json>> for every state
          RepLevel  \* 2: all six repeating-term targets in every ref category (+ some in the secondary slots);
                    \* 1: two of them, main slots only (keeps the K = 3 family tractable)

VARIABLE st         \* [kind |-> .., s |-> slot assignment]

---------------------------------------------------------------------------
(* targets and remote refs used as variants *)
TN   == <<"c1">>
TN2  == <<"c2">>
TAA  == <<"", "c1", "c2">>            \* conflict with an absent add
TAR  == <<"c1", "", "c2">>            \* conflict with an absent remove
TC3  == <<"c1", "c2", "c3">>
TC5  == <<"c1", "c2", "c3", "", "c1">>
RR(t, s) == [t |-> t, s |-> s]
(* conflicted targets whose terms REPEAT (an add equal to a remove, repeated  *)
(* absent terms): Merge::simplify is not the identity on them, so an encoder  *)
(* that simplifies before writing loses the value although the id is the hash *)
(* of the unsimplified one                                                    *)
TR1  == <<"c1", "c2", "c2">>          \* [a, b, b]
TR2  == <<"c2", "c2", "c1">>          \* [b, b, a]
TR3  == <<"c1", "c1", "c1">>          \* [a, a, a]
TR4  == <<"c1", "", "">>              \* [a, absent, absent]
TR5  == <<"", "", "c1">>              \* [absent, absent, a]
TR6  == <<"c1", "c2", "c3", "c3", "c1">>   \* 5 terms, one cancelling pair
Repeating == IF RepLevel = 2 THEN {TR1, TR2, TR3, TR4, TR5, TR6} ELSE {TR1, TR4}
Minor(S) == IF RepLevel = 2 THEN S ELSE {}
RRBoth(T) == {RR(t, "new") : t \in T} \cup {RR(t, "tracked") : t \in T}

ViewVariants ==
  [heads |-> {{}, {"c1"}, {"c1", "c2"}},
   lb1   |-> {NoEntry, TN, TAA, TAR, TC3, TC5} \cup Repeating,
   lb2   |-> {NoEntry, TN2, TC3} \cup Minor({TR1, TR4}),
   tg1   |-> {NoEntry, TN, TAR, TC3} \cup Repeating,
   tg2   |-> {NoEntry, TN2} \cup Minor({TR2, TR5}),
   gitE  |-> BOOLEAN,                  \* remote "git" exists with no refs at all
   orgE  |-> BOOLEAN,
   gb1   |-> {NoRRef, RR(TN, "new"), RR(TN, "tracked"), RR(TAR, "new"), RR(TC3, "tracked"), RR(AbsentTarget, "tracked")} \cup RRBoth(Repeating),
   ob1   |-> {NoRRef, RR(TN2, "new"), RR(TN2, "tracked"), RR(TAA, "new"), RR(TC5, "tracked"), RR(AbsentTarget, "tracked")} \cup Minor({RR(TR1, "tracked"), RR(TR4, "new")}),
   ob2   |-> {NoRRef, RR(TN, "new"), RR(TN, "tracked")},
   gt1   |-> {NoRRef, RR(TN, "tracked"), RR(TN, "new"), RR(AbsentTarget, "tracked")} \cup RRBoth(Repeating),
   ot1   |-> {NoRRef, RR(TN2, "new"), RR(TC3, "tracked")} \cup Minor({RR(TR2, "new"), RR(TR6, "tracked")}),
   gr1   |-> {NoEntry, TN, TC3, TAR} \cup Repeating,
   gr2   |-> {NoEntry, TN2} \cup Minor({TR3, TR6}),
   gh1   |-> {NoEntry, TN, TC3} \cup Repeating,
   gh2   |-> {NoEntry, TN2, TC3} \cup Minor({TR1, TR5}),
   wc1   |-> {"", "c1", "c2"},
   wc2   |-> {"", "c2"}]

ViewBase1 ==
  [heads |-> {"c1"}, lb1 |-> NoEntry, lb2 |-> NoEntry, tg1 |-> NoEntry, tg2 |-> NoEntry,
   gitE |-> FALSE, orgE |-> FALSE, gb1 |-> NoRRef, ob1 |-> NoRRef, ob2 |-> NoRRef, gt1 |-> NoRRef, ot1 |-> NoRRef,
   gr1 |-> NoEntry, gr2 |-> NoEntry, gh1 |-> NoEntry, gh2 |-> NoEntry, wc1 |-> "", wc2 |-> ""]
ViewBase2 ==
  [heads |-> {"c1", "c2"}, lb1 |-> TN, lb2 |-> TN2, tg1 |-> TN, tg2 |-> NoEntry,
   gitE |-> FALSE, orgE |-> FALSE, gb1 |-> RR(TN, "tracked"), ob1 |-> RR(TN2, "new"), ob2 |-> NoRRef,
   gt1 |-> RR(TN, "tracked"), ot1 |-> NoRRef,
   gr1 |-> TN, gr2 |-> NoEntry, gh1 |-> TN, gh2 |-> NoEntry, wc1 |-> "c1", wc2 |-> ""]

AssembleView(s) ==
  LET gitRefs == s.gb1 # NoRRef \/ s.gt1 # NoRRef
      orgRefs == s.ob1 # NoRRef \/ s.ob2 # NoRRef \/ s.ot1 # NoRRef
  IN [heads    |-> s.heads,
      local    |-> [n \in Names |-> IF n = "b1" THEN s.lb1 ELSE s.lb2],
      tags     |-> [n \in Names |-> IF n = "b1" THEN s.tg1 ELSE s.tg2],
      remotes  |-> [r \in Remotes |->
                      IF r = "git"
                      THEN [present |-> s.gitE \/ gitRefs,
                            bookmarks |-> [n \in Names |-> IF n = "b1" THEN s.gb1 ELSE NoRRef],
                            tags |-> [n \in Names |-> IF n = "b1" THEN s.gt1 ELSE NoRRef]]
                      ELSE [present |-> s.orgE \/ orgRefs,
                            bookmarks |-> [n \in Names |-> IF n = "b1" THEN s.ob1 ELSE s.ob2],
                            tags |-> [n \in Names |-> IF n = "b1" THEN s.ot1 ELSE NoRRef]]],
      gitRefs  |-> [g \in GitRefNames |-> IF g = "refs/heads/b1" THEN s.gr1 ELSE s.gr2],
      gitHeads |-> [w \in Workspaces |-> IF w = "default" THEN s.gh1 ELSE s.gh2],
      wc       |-> [w \in Workspaces |-> IF w = "default" THEN s.wc1 ELSE s.wc2]]

(* keeps slot assignment <-> view a bijection: the "exists but empty" flag   *)
(* is only set when the remote really has no refs                            *)
ViewSlotsOK(s) ==
  /\ s.gitE => (s.gb1 = NoRRef /\ s.gt1 = NoRRef)
  /\ s.orgE => (s.ob1 = NoRRef /\ s.ob2 = NoRRef /\ s.ot1 = NoRRef)
  /\ ValidView(AssembleView(s))

---------------------------------------------------------------------------
(* timestamps: ((k * 2^31 + s) * 1000 + ms) milliseconds, tz minutes *)
Ts(k, s, ms, tz) == [k |-> k, s |-> s, ms |-> ms, tz |-> tz]
TsVariants ==
  {Ts(0, 0, 0, 0),                     \* epoch
   Ts(0, 0, 1, 0),                     \* 1 ms
   Ts(0, 0, 999, 330),                 \* 999 ms, +05:30
   Ts(0, 1, 0, -720),                  \* 1 000 ms, -12:00
   Ts(-1, 2147483647, 999, 0),         \* -1 ms
   Ts(-1, 2147483646, 500, 840),       \* -1 500 ms, +14:00
   Ts(0, 2147483647, 999, 0),          \* just below 2^31 s
   Ts(2, 0, 0, 0)}                     \* 2^32 s
Opt(x) == <<x>>
None == <<>>

OpVariants ==
  [view_id |-> {"v1", "v2"},
   parents |-> {<<"o1">>, <<"o1", "o2">>, <<"o2", "o1">>},
   start   |-> TsVariants,
   end     |-> {Ts(0, 0, 0, 0), Ts(0, 0, 999, 330), Ts(-1, 2147483646, 500, 840), Ts(2, 0, 0, 0)},
   description |-> {"empty", "ascii", "unicode", "multiline"},
   hostname    |-> {"empty", "ascii", "unicode"},
   username    |-> {"empty", "ascii2", "unicode"},
   is_snapshot |-> BOOLEAN,
   workspace_name |-> {None, Opt("ascii"), Opt("empty"), Opt("unicode")},
   attributes  |-> {[k \in AttrKeys |-> None],
                    [k \in AttrKeys |-> IF k = "k1" THEN Opt("ascii") ELSE None],
                    [k \in AttrKeys |-> IF k = "k1" THEN Opt("ascii") ELSE Opt("empty")],
                    [k \in AttrKeys |-> IF k = "k2" THEN Opt("unicode") ELSE None]},
   preds   |-> {None,
                Opt(NoPreds),
                Opt([c \in Commits |-> IF c = "c1" THEN Opt(<<>>) ELSE None]),
                Opt([c \in Commits |-> IF c = "c1" THEN Opt(<<"c2", "c3">>) ELSE IF c = "c2" THEN Opt(<<>>) ELSE None])}]
OpBase1 ==
  [view_id |-> "v1", parents |-> <<"o1">>, start |-> Ts(0, 0, 0, 0), end |-> Ts(0, 0, 0, 0),
   description |-> "empty", hostname |-> "empty", username |-> "empty", is_snapshot |-> FALSE,
   workspace_name |-> None, attributes |-> [k \in AttrKeys |-> None], preds |-> None]
OpBase2 ==
  [view_id |-> "v2", parents |-> <<"o1", "o2">>, start |-> Ts(0, 0, 999, 330), end |-> Ts(0, 0, 999, 330),
   description |-> "unicode", hostname |-> "ascii", username |-> "ascii2", is_snapshot |-> TRUE,
   workspace_name |-> Opt("ascii"),
   attributes |-> [k \in AttrKeys |-> IF k = "k1" THEN Opt("ascii") ELSE None],
   preds |-> Opt([c \in Commits |-> IF c = "c1" THEN Opt(<<"c2", "c3">>) ELSE IF c = "c2" THEN Opt(<<>>) ELSE None])]
AssembleOp(s) ==
  [view_id |-> s.view_id, parents |-> s.parents,
   meta |-> [start |-> s.start, end |-> s.end, description |-> s.description, hostname |-> s.hostname,
             username |-> s.username, is_snapshot |-> s.is_snapshot, workspace_name |-> s.workspace_name,
             attributes |-> s.attributes],
   preds |-> s.preds]

---------------------------------------------------------------------------
Tree(t, l) == [t |-> t, l |-> l]
SigTs == {<<0, 0, 0>>, <<0, 0, 1>>, <<0, 0, 999>>, <<0, 1, 0>>, <<-1, 2147483647, 999>>,
          <<-1, 2147483646, 500>>, <<0, 2147483647, 999>>, <<2, 0, 0>>}
Tzs == {-720, 0, 330, 840}
NameClasses == {"empty", "ascii", "unicode", "placeholder"}
CommitVariants ==
  [parents |-> {<<"root">>, <<"p1">>, <<"p1", "p2">>, <<"p2", "p1">>},
   predecessors |-> {<<>>, <<"p1">>, <<"p2", "p1">>},
   tree    |-> {Tree(<<"t0">>, <<>>), Tree(<<"t1">>, <<>>),
                Tree(<<"t1", "t0", "t2">>, <<>>),
                Tree(<<"t1", "t0", "t2">>, <<"ascii", "ascii2", "unicode">>),
                Tree(<<"t2", "t1", "t1">>, <<"ascii", "empty", "ascii2">>),
                Tree(<<"t1", "t0", "t2", "t0", "t3">>, <<"ascii", "ascii2", "unicode", "ascii2", "ascii">>)},
   change_id   |-> {"cid16a", "cid16b", "cid1", "cid32"},
   description |-> {"empty", "ascii", "unicode", "multiline", "placeholder", "notrail"},
   a_name  |-> NameClasses, a_email |-> NameClasses, a_ts |-> SigTs, a_tz |-> Tzs,
   c_name  |-> NameClasses, c_email |-> NameClasses, c_ts |-> SigTs, c_tz |-> Tzs]
CommitBase1 ==
  [parents |-> <<"root">>, predecessors |-> <<>>, tree |-> Tree(<<"t0">>, <<>>), change_id |-> "cid16a",
   description |-> "empty", a_name |-> "ascii", a_email |-> "ascii", a_ts |-> <<0, 0, 0>>, a_tz |-> 0,
   c_name |-> "ascii", c_email |-> "ascii", c_ts |-> <<0, 0, 0>>, c_tz |-> 0]
CommitBase2 ==
  [parents |-> <<"p1", "p2">>, predecessors |-> <<"p1">>,
   tree |-> Tree(<<"t1", "t0", "t2">>, <<"ascii", "ascii2", "unicode">>), change_id |-> "cid16b",
   description |-> "unicode", a_name |-> "unicode", a_email |-> "ascii", a_ts |-> <<0, 1, 0>>, a_tz |-> 330,
   c_name |-> "ascii", c_email |-> "unicode", c_ts |-> <<0, 2147483647, 999>>, c_tz |-> -720]
SigOf(n, e, t, tz) == [name |-> n, email |-> e, ts |-> [k |-> t[1], s |-> t[2], ms |-> t[3], tz |-> tz]]
AssembleCommit(s) ==
  [parents |-> s.parents, predecessors |-> s.predecessors, root_tree |-> s.tree.t, labels |-> s.tree.l,
   change_id |-> s.change_id, description |-> s.description,
   author |-> SigOf(s.a_name, s.a_email, s.a_ts, s.a_tz),
   committer |-> SigOf(s.c_name, s.c_email, s.c_ts, s.c_tz)]

---------------------------------------------------------------------------
(* files / symlinks (content classes) and trees (entry kinds per name): the  *)
(* whole product, they are small                                             *)
BlobVariants == [typ |-> {"file", "symlink"},
                 content |-> {"empty", "ascii", "unicode", "crlf", "binary", "long", "path"}]
BlobBase == [typ |-> "file", content |-> "ascii"]
BlobSlotsOK(s) == s.typ = "symlink" => s.content # "binary"       \* a symlink target is a string
EntryKinds == {"none", "file", "exec", "symlink", "tree"}
TreeVariants == [e_a |-> EntryKinds, e_b |-> EntryKinds, e_u |-> EntryKinds]
TreeBase == [e_a |-> "none", e_b |-> "none", e_u |-> "none"]

---------------------------------------------------------------------------
Variants(kind) == IF kind = "view" THEN ViewVariants ELSE IF kind = "op" THEN OpVariants
                  ELSE IF kind = "commit" THEN CommitVariants ELSE IF kind = "blob" THEN BlobVariants ELSE TreeVariants
Bases(kind) == IF kind = "view" THEN {ViewBase1, ViewBase2} ELSE IF kind = "op" THEN {OpBase1, OpBase2}
               ELSE IF kind = "commit" THEN {CommitBase1, CommitBase2} ELSE IF kind = "blob" THEN {BlobBase} ELSE {TreeBase}
SlotsOK(kind, s) == IF kind = "view" THEN ViewSlotsOK(s) ELSE IF kind = "blob" THEN BlobSlotsOK(s) ELSE TRUE
Value(kind, s) == IF kind = "view" THEN AssembleView(s) ELSE IF kind = "op" THEN AssembleOp(s)
                  ELSE IF kind = "commit" THEN AssembleCommit(s) ELSE s

Dist(s, b) == Cardinality({sl \in DOMAIN s : s[sl] # b[sl]})
WithinK(kind, s) == kind \in {"blob", "tree"} \/ \E b \in Bases(kind) : Dist(s, b) <= K

Init == \E kind \in Kinds : \E b \in Bases(kind) : st = [kind |-> kind, s |-> b]
Next ==
  \E sl \in DOMAIN st.s : \E x \in Variants(st.kind)[sl] :
     /\ x # st.s[sl]
     /\ LET s2 == [st.s EXCEPT ![sl] = x] IN
          /\ WithinK(st.kind, s2)
          /\ SlotsOK(st.kind, s2)
          /\ st' = [st EXCEPT !.s = s2]
Spec == Init /\ [][Next]_st

---------------------------------------------------------------------------
InvView ==
  st.kind = "view" =>
    LET v == AssembleView(st.s) IN
      /\ ValidView(v)
      /\ LegacyRoundTripOK(v)
      /\ ViewRoundTripOK(v)
InvOp == st.kind = "op" => OpRoundTripOK(AssembleOp(st.s))
InvCommit == st.kind = "commit" => CommitReadEqualsReturnedOK(AssembleCommit(st.s))

(* generator: each family member once *)
EmitInv == Emit => PrintT(<<"REPLAY", ToJson([kind |-> st.kind, v |-> Value(st.kind, st.s)])>>)
=============================================================================
