------------------------------ MODULE GitPush ------------------------------
(* C45: pushing bookmarks to a Git remote (lib/src/git.rs push_refs /       *)
(* push_updates, git_subprocess.rs spawn_push: `git push                    *)
(* --force-with-lease=<ref>:<expected>`), with another clone pushing to the *)
(* same remote.                                                             *)
(*                                                                          *)
(* Per bookmark b:                                                          *)
(*   local[b]   jj's local bookmark (a RefTarget, as in GitSync)            *)
(*   track[b]   jj's remote-tracking bookmark b@origin: the position jj     *)
(*              last recorded for the remote branch                         *)
(*   remote[b]  the branch in the remote repository                         *)
(* known = commits jj has.  Absent = 0.                                     *)
(*                                                                          *)
(* Actions: JjSet/JjDelete, OtherSet/OtherDelete (the other clone pushes),  *)
(* Fetch (jj refreshes track and merges into local), Push(S).               *)
(*                                                                          *)
(* Many-refs dimension: a push may carry any number of further ("filler")  *)
(* bookmarks that are in sync with the remote; they never diverge, so they  *)
(* are a constant of a behaviour (MC_GitPush!fill), not state.  PushOK is   *)
(* stated per bookmark and does not depend on how many refs travel in the   *)
(* same push or at which position a bookmark is passed to git.              *)
(*                                                                          *)
(* REFERENCE TRANSCRIPTION: PushAsked, PushF, FetchF.                       *)
(* CONTRACTS: PushOK, FetchOK, PFrameOK - only these judge.                 *)
EXTENDS GitSync

PBms(s) == DOMAIN s.remote

---------------------------------------------------------------------------
(* REFERENCE TRANSCRIPTION                                                  *)

(* refs::classify_ref_push_action = Update: what `jj git push` sends *)
PushAsked(s, S) == {b \in S : ~IsConflicted(s.local[b]) /\ Target(s.local[b]) # s.track[b]}
New(s, b) == Target(s.local[b])

(* git push --force-with-lease=b:track[b]  new:b, per ref (no --atomic):    *)
(*  - the remote already has the new value: "up to date", counted as pushed *)
(*  - the remote is where jj last saw it: updated                           *)
(*  - otherwise: rejected (stale info)                                      *)
UpToDate(s, b) == New(s, b) # Absent /\ s.remote[b] = New(s, b)
LeaseHolds(s, b) == s.remote[b] = s.track[b]
PushPushed(s, S) == {b \in PushAsked(s, S) : UpToDate(s, b) \/ LeaseHolds(s, b)}
PushRejected(s, S) == PushAsked(s, S) \ PushPushed(s, S)
PushF(s, S) ==
  [ s EXCEPT !.remote = [b \in PBms(s) |-> IF b \in PushPushed(s, S) THEN New(s, b) ELSE s.remote[b]],
             !.track  = [b \in PBms(s) |-> IF b \in PushPushed(s, S) THEN New(s, b) ELSE s.track[b]] ]

(* fetch + import with the remote auto-tracked: the same three-way merge as *)
(* GitSync's import, base = the old remote-tracking position                *)
FetchChanged(s) == {b \in PBms(s) : s.remote[b] # s.track[b]}
FetchF(par, s) ==
  [ s EXCEPT !.local = [b \in PBms(s) |->
                          IF b \in FetchChanged(s)
                          THEN MergeRefTargets(par, s.local[b], Normal(s.track[b]), Normal(s.remote[b]))
                          ELSE s.local[b]],
             !.track = s.remote,
             !.known = s.known \cup AncOf(par, {s.remote[b] : b \in FetchChanged(s)} \ {Absent}) ]

---------------------------------------------------------------------------
(* CONTRACTS                                                                *)

(* One bookmark of a push.  asked = it was sent; out = the reported result: *)
(* pushed / rejected sets and err (the whole call failed).                  *)
PushBookmarkOK(s, t, S, pushed, rejected, err, b) ==
  LET new == New(s, b) IN
  IF b \notin PushAsked(s, S)
  THEN t.remote[b] = s.remote[b] /\ t.track[b] = s.track[b] /\ b \notin pushed /\ b \notin rejected
  ELSE (* the lease: the remote branch changes only if it is where jj last saw it, and only to the pushed value *)
       /\ (t.remote[b] # s.remote[b] => s.remote[b] = s.track[b] /\ t.remote[b] = new)
       (* jj's record moves only to the pushed value, and only if the remote really has it *)
       /\ (t.track[b] # s.track[b] => t.track[b] = new /\ t.remote[b] = new)
       (* unseen remote change: rejected, reported, records untouched *)
       /\ (s.remote[b] # s.track[b] /\ s.remote[b] # new =>
             b \notin pushed /\ (b \in rejected \/ err) /\ t.track[b] = s.track[b])
       (* the lease holds: the push goes through *)
       /\ (s.remote[b] = s.track[b] /\ ~err => t.remote[b] = new /\ t.track[b] = new /\ b \in pushed)
       (* what is reported as pushed is on the remote and recorded *)
       /\ (b \in pushed => t.remote[b] = new /\ t.track[b] = new /\ b \notin rejected)

PushOK(s, t, S, pushed, rejected, err) ==
  /\ t.local = s.local /\ t.known = s.known
  /\ \A b \in PBms(s) : PushBookmarkOK(s, t, S, pushed, rejected, err, b)

FetchOK(par, s, t) ==
  /\ t.remote = s.remote
  /\ t.track = s.remote
  /\ \A b \in PBms(s) : ImportBookmarkOK(par, s.local[b], s.track[b], s.remote[b], t.local[b])
  /\ s.known \subseteq t.known
  /\ t.known \subseteq s.known \cup AncOf(par, {s.remote[b] : b \in PBms(s)} \ {Absent})
  /\ \A b \in PBms(s) : Adds(t.local[b]) \ {Absent} \subseteq t.known

PFrameOK(s, t, op, b, c) ==
  IF op = "JjSet" THEN t = [s EXCEPT !.local[b] = Normal(c)]
  ELSE IF op = "JjDelete" THEN t = [s EXCEPT !.local[b] = Normal(Absent)]
  ELSE IF op = "OtherSet" THEN t = [s EXCEPT !.remote[b] = c]
  ELSE IF op = "OtherDelete" THEN t = [s EXCEPT !.remote[b] = Absent]
  ELSE FALSE
=============================================================================
