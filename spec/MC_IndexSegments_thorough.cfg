SPECIFICATION Spec
CONSTANTS
  MaxCommits = 4
  MaxOps = 4
  MaxParents = 3
  MaxPerTx = 2
  AllowHide = TRUE
  Shape = "any"
  Bug = "none"
INVARIANTS InvWellFormed InvQueries InvGeometric InvSquashKeeps InvMergeComplete InvLevelsRule InvMemo EmitInv
CHECK_DEADLOCK FALSE
