---------------------------- MODULE WorkingCopy ----------------------------
(* A model of jj's local working copy (lib/src/local_working_copy.rs):      *)
(* the files on disk, the .gitignore files among them, the working-copy     *)
(* tree, the recorded file states and the sparse patterns; with the user's  *)
(* edits and jj's Snapshot / CheckOut / SetSparse as actions.               *)
(*                                                                          *)
(* Properties hung on it: C23 (snapshot records what is on disk),           *)
(* C24 (check-out writes the tree, an immediate snapshot sees no change),   *)
(* C25 (check-out never destroys files it does not own), C27 (sparse        *)
(* patterns change the disk, never the commit).                             *)
(*                                                                          *)
(* The whole state is one record `s`; every action is an operator s -> s'   *)
(* with an enabling predicate, so that the model checker (MC_WorkingCopy),  *)
(* the behaviour generator and the trace judge (Trace_WorkingCopy) use the  *)
(* very same definitions.  Two kinds of definitions are kept apart:         *)
(*   REFERENCE TRANSCRIPTION  Snapshot / CheckOut / SetSparse below follow  *)
(*     the code step by step (directory walk with present-entry sets and    *)
(*     deleted-file detection; per-path update with create_parent_dirs,     *)
(*     remove_old_file, can_create_new_file, empty-parent removal).         *)
(*   CONTRACTS  SnapshotOK, CheckOutOK, UpdateSafe, SparseOK at the bottom  *)
(*     state the properties.  Only a contract failure is a violation.       *)
EXTENDS Naturals, Integers, Sequences, FiniteSets, SequencesExt

CONSTANTS
  Paths,        \* the path universe: a set of tuples of components; a path may be a
                \* file or (if other paths lie below it) a directory
  PathOrder,    \* all paths as a sequence in jj's tree order
  IgnoreVocab,  \* ignore-file content id -> sequence of patterns
  Bug           \* "none", or the name of a seeded design bug (negative configs)

(* the standard universe used by MC_WorkingCopy, Trace_WorkingCopy and the    *)
(* harness (harness/jjconf/src/bin/wc/script.rs: PATHS, VOCAB)               *)
StdPathOrder == << <<"gi">>, <<"d">>, <<"d", "gi">>, <<"d", "x">>, <<"d", "x", "z">>, <<"d", "y">>, <<"f">> >>
StdPaths == {StdPathOrder[i] : i \in 1..Len(StdPathOrder)}
Pat(neg, anch, dironly, name) == [neg |-> neg, anch |-> anch, dironly |-> dironly, name |-> name]
StdIgnoreVocab == <<
  << Pat(FALSE, FALSE, FALSE, "f") >>,                              \* 1  f
  << Pat(FALSE, FALSE, TRUE, "d") >>,                               \* 2  d/
  << Pat(FALSE, FALSE, FALSE, "x") >>,                              \* 3  x
  << Pat(FALSE, FALSE, FALSE, "*"), Pat(TRUE, FALSE, FALSE, "x") >>, \* 4  *  !x
  << Pat(TRUE, FALSE, FALSE, "x") >>,                               \* 5  !x
  << Pat(FALSE, TRUE, FALSE, "y") >>,                               \* 6  /y
  << Pat(FALSE, FALSE, FALSE, "d") >> >>                            \* 7  d

---------------------------------------------------------------------------
(* VOCABULARY                                                               *)
(* One record shape for every value (TLC compares them freely):             *)
(*   k  "absent" | "file" | "symlink" | "dir" | "special" (disk only: directory,    *)
(*      fifo/socket) | "conflict" (tree only)                                 *)
(*   c  content id of a file (0 otherwise; 0 for a conflict marker file)    *)
(*   x  executable bit                                                      *)
(*   t  symlink target                                                      *)
(*   m  conflict terms (content ids, 0 = absent side); on disk: the file    *)
(*      holds the materialisation of that conflict                          *)
V(k, c, x, t, m) == [k |-> k, c |-> c, x |-> x, t |-> t, m |-> m]
Absent     == V("absent", 0, FALSE, "", <<>>)
File(c, x) == V("file", c, x, "", <<>>)
Sym(t)     == V("symlink", 0, FALSE, t, <<>>)
DirV       == V("dir", 0, FALSE, "", <<>>)
SpecialV   == V("special", 0, FALSE, "", <<>>)      \* a fifo: exists, is neither file, symlink nor directory
(* conflicts: m = terms <<add1, base, add2>>: content id of a file, 0 = absent, -1 = a       *)
(* symlink (to "f"); c = id of the tree's conflict LABEL set (0 = unlabelled).  A file       *)
(* conflict is materialised as a marker file, any other conflict as a textual description;   *)
(* both embed the labels, so the disk value carries m and the label id as well.              *)
ConfL(m, l) == V("conflict", l, FALSE, "", m)
Conf(m)    == ConfL(m, 0)
MatFile(m, l, x) == V("file", l, x, "", m)
NonFile(m) == \E i \in 1..Len(m) : m[i] < 0

FileLike(v) == v.k \in {"file", "symlink"}

(* recorded file state (only what matters here: tracked?, type, on-disk exec bit) *)
FS(k, x) == [k |-> k, x |-> x]
NoFS == FS("none", FALSE)

Parent(p) == SubSeq(p, 1, Len(p) - 1)
Children(d) == {p \in Paths : Len(p) = Len(d) + 1 /\ IsPrefix(d, p)}
Under(d) == {p \in Paths : Len(p) > Len(d) /\ IsPrefix(d, p)}
IsIgnorePath(p) == p[Len(p)] = "gi"          \* "gi" stands for ".gitignore"
(* any path but an ignore file may become a directory (an EMPTY one if the universe has *)
(* nothing below it)                                                                  *)
CanBeDir(p) == ~IsIgnorePath(p)
Ancestors(p) == {SubSeq(p, 1, n) : n \in 1..Len(p) - 1}
Pos(p) == CHOOSE i \in 1..Len(PathOrder) : PathOrder[i] = p
MaxOf(S) == CHOOSE x \in S : \A y \in S : y <= x
MinOf(S) == CHOOSE x \in S : \A y \in S : x <= y

(* sparse patterns are path prefixes (PrefixMatcher) *)
SparseMatch(sp, p) == \E q \in sp : IsPrefix(q, p)
SparseVisit(sp, d) == \E q \in sp : IsPrefix(q, d) \/ IsPrefix(d, q)

(* a disk is well formed when everything below a non-directory is absent *)
WellFormed(disk) == \A p \in Paths : (Len(p) > 1 /\ disk[p].k # "absent") => disk[Parent(p)].k = "dir"

---------------------------------------------------------------------------
(* IGNORE RULES (the stack semantics of GitIgnoreFile::matches over a       *)
(* single-component pattern language; globbing itself is C28's subject)     *)
(* pattern = [neg, anch, dironly, name]; name is a component or "*"         *)
NameMatch(n, comp) == n = "*" \/ n = comp
MatchPat(pat, rel, isdir) ==
  /\ (pat.dironly => isdir)
  /\ IF pat.anch THEN Len(rel) = 1 /\ NameMatch(pat.name, rel[1])
     ELSE NameMatch(pat.name, rel[Len(rel)])
(* one ignore file: the last matching line wins.  0 no match, 1 ignore, 2 un-ignore *)
FileVerdict(pats, rel, isdir) ==
  LET idx == {i \in 1..Len(pats) : MatchPat(pats[i], rel, isdir)}
  IN IF idx = {} THEN 0 ELSE IF pats[MaxOf(idx)].neg THEN 2 ELSE 1
(* the chain: ignore files of the ancestor directories, innermost first; n is  *)
(* the length of the ancestor directory being consulted                       *)
RECURSIVE ChainVerdict(_, _, _, _)
ChainVerdict(disk, p, isdir, n) ==
  IF n < 0 THEN 0
  ELSE LET g == Append(SubSeq(p, 1, n), "gi")
           v == IF g \in Paths /\ disk[g].k = "file" /\ disk[g].m = <<>>
                THEN FileVerdict(IgnoreVocab[disk[g].c], SubSeq(p, n + 1, Len(p)), isdir)
                ELSE 0
       IN IF v # 0 THEN v ELSE ChainVerdict(disk, p, isdir, n - 1)
Ignored(disk, p, isdir) == ChainVerdict(disk, p, isdir, Len(p) - 1) = 1
(* the walk does not descend into an ignored directory, so everything below stays ignored *)
IgnoredAlong(disk, p) ==
  \/ Ignored(disk, p, FALSE)
  \/ \E n \in 1..Len(p) - 1 : Ignored(disk, SubSeq(p, 1, n), TRUE)

---------------------------------------------------------------------------
(* STATE                                                                    *)
(*  disk    Paths -> value          what is on disk inside the workspace    *)
(*  out     OutPaths -> value       a sentinel directory OUTSIDE the        *)
(*                                  workspace (target of "out" symlinks)    *)
(*  tree    Paths -> value          the working-copy tree                   *)
(*  fs      Paths -> file state     recorded file states (tracked paths)    *)
(*  sparse  set of prefixes                                                 *)
(*  xp      "respect" | "ignore"    working-copy.exec-bit-change            *)
(*  stats   result of the last CheckOut / SetSparse                         *)
(*  err     "" | "panic" | "error" (the jj command failed)                  *)
NoStats == [added |-> 0, updated |-> 0, removed |-> 0, skipped |-> 0]
(* the sentinel directory mirrors the sub-structure below the workspace's top-level     *)
(* directory: relative paths gi, x, x/z, y.  It is pre-populated with x/ (a directory)   *)
(* and x/z = "precious" (content 1).  Symlink target "out" is the sentinel itself,       *)
(* "out/x" its sub-directory x.                                                          *)
OutPaths == {Tail(p) : p \in {q \in Paths : Len(q) > 1}}
OutOrder == SelectSeq([i \in 1..Len(PathOrder) |-> Tail(PathOrder[i])], LAMBDA q : q # <<>>)
InitOut == [q \in OutPaths |-> IF q = <<"x">> THEN DirV ELSE IF q = <<"x", "z">> THEN File(1, FALSE) ELSE Absent]
OutBase(t) == IF t = "out" THEN <<>> ELSE IF t = "out/x" THEN <<"x">> ELSE <<"?">>
InitState(xp) ==
  [disk |-> [p \in Paths |-> Absent], out |-> InitOut,
   tree |-> [p \in Paths |-> Absent], fs |-> [p \in Paths |-> NoFS],
   sparse |-> {<<>>}, xp |-> xp, stats |-> NoStats, err |-> ""]

Tracked(s, p) == s.fs[p].k # "none"

---------------------------------------------------------------------------
(* USER EDITS (the file system's own semantics)                             *)
ParentIsDir(disk, p) == IF Len(p) = 1 THEN TRUE ELSE disk[Parent(p)].k = "dir"

(* write a regular file (create or overwrite; keeps the mode of an existing file) *)
CanWrite(s, p, c) == ParentIsDir(s.disk, p) /\ s.disk[p].k \in {"absent", "file"}
DoWrite(s, p, c) ==
  [s EXCEPT !.disk[p] = File(c, IF s.disk[p].k = "file" THEN s.disk[p].x ELSE FALSE)]
CanChmod(s, p) == s.disk[p].k = "file" /\ ~IsIgnorePath(p)
DoChmod(s, p) == [s EXCEPT !.disk[p].x = ~s.disk[p].x]
(* rm -f p; ln -s t p *)
CanSymlink(s, p, t) == ParentIsDir(s.disk, p) /\ s.disk[p].k \in {"absent", "file", "symlink"} /\ ~IsIgnorePath(p)
DoSymlink(s, p, t) == [s EXCEPT !.disk[p] = Sym(t)]
CanDelete(s, p) == FileLike(s.disk[p]) \/ s.disk[p].k = "special"
DoDelete(s, p) == [s EXCEPT !.disk[p] = Absent]
(* rm -f p; mkdir p : a file (or nothing) becomes a directory *)
CanFileToDir(s, p) == CanBeDir(p) /\ ParentIsDir(s.disk, p) /\ s.disk[p].k # "dir"
DoFileToDir(s, p) == [s EXCEPT !.disk[p] = DirV]
(* rm -f p; mkfifo p : a file (or nothing) becomes a special file *)
CanMkfifo(s, p) == ~IsIgnorePath(p) /\ ParentIsDir(s.disk, p) /\ s.disk[p].k \in {"absent", "file", "symlink"}
DoMkfifo(s, p) == [s EXCEPT !.disk[p] = SpecialV]
(* rm -rf p *)
CanRmTree(s, p) == s.disk[p].k = "dir"
DoRmTree(s, p) == [s EXCEPT !.disk = [q \in Paths |-> IF IsPrefix(p, q) THEN Absent ELSE s.disk[q]]]
(* rm -rf p; ln -s t p : a directory (at any depth) becomes a symlink, e.g. to the    *)
(* sentinel directory outside the workspace, which has the same sub-paths              *)
CanDirToSymlink(s, p, t) == s.disk[p].k = "dir" /\ ~IsIgnorePath(p)
DoDirToSymlink(s, p, t) ==
  [s EXCEPT !.disk = [q \in Paths |-> IF q = p THEN Sym(t)
                                      ELSE IF IsPrefix(p, q) THEN Absent ELSE s.disk[q]]]
(* rm -rf p; write file p : a directory becomes a file *)
CanDirToFile(s, p, c) == s.disk[p].k = "dir"
DoDirToFile(s, p, c) ==
  [s EXCEPT !.disk = [q \in Paths |-> IF q = p THEN File(c, FALSE)
                                      ELSE IF IsPrefix(p, q) THEN Absent ELSE s.disk[q]]]

---------------------------------------------------------------------------
(* SNAPSHOT (TreeState::snapshot, FileSnapshotter)                          *)

(* What stat()/open() of path q sees.  The ordinary walk never descends through a       *)
(* symlink, but visit_tracked_files stats the tracked paths of an ignored directory by    *)
(* their full name, so the kernel resolves a symlinked directory on the way - also one    *)
(* that points to the sentinel directory outside the workspace (F8).                      *)
Seen(s, q) ==
  LET nondir == {n \in 1..Len(q) - 1 : s.disk[SubSeq(q, 1, n)].k # "dir"} IN
  IF nondir = {} THEN s.disk[q]
  ELSE LET n0 == MinOf(nondir)
           lnk == s.disk[SubSeq(q, 1, n0)]
           op == OutBase(lnk.t) \o SubSeq(q, n0 + 1, Len(q))
       IN IF lnk.k = "symlink" /\ op \in OutPaths
             /\ \A n \in 1..Len(op) - 1 : s.out[SubSeq(op, 1, n)].k = "dir"
          THEN s.out[op] ELSE Absent

(* visit_tracked_files: inside an ignored directory only tracked paths are  *)
(* looked at (the file states prefixed by the directory, itself included)   *)
VisitTracked(s, dir) ==
  LET ps == {q \in Paths : IsPrefix(dir, q) /\ Tracked(s, q) /\ SparseMatch(s.sparse, q)}
  IN [upd |-> {q \in ps : FileLike(Seen(s, q))},
      del |-> {q \in ps : IF Bug = "snap-tracked-nonfile" THEN Seen(s, q).k = "absent"   \* seeded bug
                          ELSE ~FileLike(Seen(s, q))},
      (* symlink_metadata of a tracked path below something that is not a directory   *)
      (* fails with ENOTDIR, which is not NotFound: the whole snapshot fails (F7)      *)
      err |-> \E q \in ps : \E r \in Ancestors(q) : Len(r) > Len(dir) /\ s.disk[r].k \in {"file", "special"}]

(* visit_directory + process_dir_entry + emit_deleted_files *)
RECURSIVE VisitDir(_, _)
VisitDir(s, dir) ==
  LET entries == {e \in Children(dir) : s.disk[e].k # "absent"}
      dirs == {e \in entries : s.disk[e].k = "dir"}
      ignoredUntracked(e) ==
        IF Bug = "snap-ignore-tracked" THEN Ignored(s.disk, e, FALSE)
        ELSE ~Tracked(s, e) /\ Ignored(s.disk, e, FALSE)
      (* present file entries: matched by the sparse patterns and tracked or not ignored *)
      files == {e \in entries : FileLike(s.disk[e]) /\ SparseMatch(s.sparse, e) /\ ~ignoredUntracked(e)}
      sub(e) == IF Ignored(s.disk, e, TRUE)
                THEN (IF Bug = "snap-skip-ignored-dir" THEN [upd |-> {}, del |-> {}, err |-> FALSE] ELSE VisitTracked(s, e))
                ELSE IF SparseVisit(s.sparse, e) THEN VisitDir(s, e)
                ELSE [upd |-> {}, del |-> {}, err |-> FALSE]
      (* emit_deleted_files: tracked paths of this directory's file states whose    *)
      (* first component below `dir` is not a present entry of the right kind       *)
      cand == {q \in Paths : IsPrefix(dir, q) /\ Tracked(s, q)
                             /\ (SparseMatch(s.sparse, q) \/ Bug = "sparse-delete")}
      gone == {q \in cand :
                 IF q = dir THEN TRUE                      \* the "" name: dir was a tracked file
                 ELSE IF Len(q) = Len(dir) + 1 THEN q \notin files
                 ELSE (IF Bug = "snap-no-dir-delete" THEN FALSE
                       ELSE SubSeq(q, 1, Len(dir) + 1) \notin dirs)}
  IN [upd |-> files \cup UNION {sub(e).upd : e \in dirs},
      del |-> gone \cup UNION {sub(e).del : e \in dirs},
      err |-> \E e \in dirs : sub(e).err]

(* get_updated_tree_value / write_path_to_store for a present entry *)
SnapValue(s, p) ==
  LET dv == Seen(s, p)  old == s.tree[p] IN
  IF dv.k = "symlink" THEN Sym(dv.t)
  ELSE IF old.k = "conflict" /\ NonFile(old.m) THEN old
         (* a conflict that is not between regular files is never parsed back: whatever the  *)
         (* file contains, write_path_to_store keeps the current value                        *)
  ELSE IF dv.m # <<>> THEN
         (* the file holds conflict markers: parsed back into the same conflict (the labels  *)
         (* belong to the tree, not to the file)                                             *)
         (IF old.k = "conflict" /\ old.m = dv.m THEN old ELSE File(-1, dv.x))
  ELSE File(dv.c, IF s.xp = "respect" THEN dv.x
                  ELSE IF old.k = "file" THEN old.x ELSE FALSE)

CanSnapshot(s) == s.err = ""
(* the debug assertion at the end of TreeState::snapshot: the recorded file   *)
(* states are exactly the tree's paths inside the sparse patterns             *)
StatePathsOK(s) ==
  \A p \in Paths : Tracked(s, p) <=> (SparseMatch(s.sparse, p) /\ s.tree[p].k # "absent")
(* path_value(p) is an unresolved merge of differing TREES when some path below p is    *)
(* conflicted; get_updated_tree_value then keeps the current value, i.e. emits nothing   *)
(* for a regular file (a symlink is always written as a new resolved value)              *)
DirConflictAt(s, p) == \E q \in Under(p) : s.tree[q].k = "conflict"
DoSnapshot(s) ==
  IF ~SparseVisit(s.sparse, <<>>) THEN s      \* nothing to visit
  ELSE
    LET w == VisitDir(s, <<>>)
        (* overrides handed to the MergedTreeBuilder *)
        emit == {p \in w.upd : ~(Seen(s, p).k = "file" /\ DirConflictAt(s, p)) /\ SnapValue(s, p) # s.tree[p]}
        ovr == emit \cup w.del
        (* a tombstone on a path that is a directory of the tree removes the whole subtree, *)
        (* unless some override below it makes the TreeBuilder rewrite that directory       *)
        dropped == {q \in Paths : \E p \in w.del : q \in Under(p) /\ \A r \in Under(p) : r \notin ovr}
        (* an emitted entry turns every tree FILE above it into a directory - also one that  *)
        (* lies outside the sparse patterns and was never looked at (F9)                      *)
        evicted == {p \in Paths : s.tree[p].k # "absent" /\ \E q \in emit : p \in Ancestors(q)}
        s2 == [s EXCEPT
          !.tree = [p \in Paths |-> IF p \in w.del \/ p \in dropped \/ p \in evicted THEN Absent
                                    ELSE IF p \in emit THEN SnapValue(s, p) ELSE s.tree[p]],
          !.fs = [p \in Paths |-> IF p \in w.del THEN NoFS
                                  ELSE IF p \in w.upd THEN FS(Seen(s, p).k, Seen(s, p).x) ELSE s.fs[p]]]
    IN IF w.err THEN [s EXCEPT !.err = "error"]    \* "Failed to stat file": the command fails
       ELSE IF StatePathsOK(s2) THEN s2
       ELSE [s EXCEPT !.err = "panic"]    \* debug builds: the process dies, nothing is saved

---------------------------------------------------------------------------
(* UPDATE (TreeState::update): one diff entry at a time, in file-system     *)
(* order                                                                    *)

(* diff_stream_for_file_system: tree order, except that a file replacing a  *)
(* directory comes after the entries below it                               *)
Held(old, new, p) == new[p].k # "absent" /\ \E q \in Under(p) : old[q].k # "absent"
OrderKey(old, new, p) ==
  IF Held(old, new, p) THEN 2 * MaxOf({Pos(q) : q \in Under(p)}) + 1 ELSE 2 * Pos(p)
FsOrder(old, new, S) ==
  SetToSortSeq(S, LAMBDA a, b : OrderKey(old, new, a) < OrderKey(old, new, b))

(* remove the now-empty parent directories, innermost first, as far as they are empty *)
RECURSIVE RemoveEmptyParents(_, _)
RemoveEmptyParents(disk, p) ==
  IF Len(p) > 1 /\ Bug # "co-keep-dirs" /\ \A q \in Children(Parent(p)) : disk[q].k = "absent"
  THEN RemoveEmptyParents([disk EXCEPT ![Parent(p)] = Absent], Parent(p)) ELSE disk

(* w = [disk, out, fs, stats]; b / a = value before / after at path p *)
Count(w, b, a) ==
  [w EXCEPT !.stats = IF a.k = "absent" THEN [@ EXCEPT !.removed = @ + 1]
                      ELSE IF b.k = "absent" THEN [@ EXCEPT !.added = @ + 1]
                      ELSE [@ EXCEPT !.updated = @ + 1]]
(* w.pushed: the paths pushed to changed_file_states, in processing order      *)
SkipEntry(w, p) == [w EXCEPT !.fs[p] = FS("file", FALSE), !.stats.skipped = @ + 1,
                             !.pushed = Append(@, p)]

EntryStep(w0, xp, p, b, a) ==
  LET w == Count(w0, b, a)
      par == Parent(p)
      (* create_parent_dirs walks the ancestors from the top: the first one that is not a   *)
      (* directory decides (absent: it and everything below is created; anything else: skip) *)
      nondir == {n \in 1..Len(p) - 1 : w.disk[SubSeq(p, 1, n)].k # "dir"}
      parKind == IF nondir = {} THEN "dir" ELSE w.disk[SubSeq(p, 1, MinOf(nondir))].k
      xw == IF xp = "respect" THEN a.x
            ELSE IF w.fs[p].k = "file" THEN w.fs[p].x ELSE FALSE
      newv == IF a.k = "conflict" THEN MatFile(a.m, a.c, IF NonFile(a.m) THEN FALSE ELSE xw)
              ELSE IF a.k = "file" THEN File(a.c, xw) ELSE a
  IN
  IF /\ parKind = "symlink"
     /\ LET n0 == MinOf(nondir)
            lnk == w.disk[SubSeq(p, 1, n0)]
            op == OutBase(lnk.t) \o SubSeq(p, n0 + 1, Len(p))
        IN /\ op \in OutPaths
           (* seeded bugs: "co-follow-symlink" resolves every path through a symlinked   *)
           (* directory; "co-follow-ancestor-symlink" only checks the IMMEDIATE parent   *)
           (* and only on the in-place fast path (before and after both present)         *)
           /\ \/ Bug = "co-follow-symlink"
              \/ (Bug = "co-follow-ancestor-symlink" /\ n0 < Len(p) - 1 /\ b.k # "absent" /\ a.k # "absent"
                  /\ w.out[SubSeq(op, 1, Len(op) - 1)].k = "dir")
  THEN (* the path is resolved by the kernel through the symlinked directory *)
       LET n0 == MinOf(nondir)
           op == OutBase(w.disk[SubSeq(p, 1, n0)].t) \o SubSeq(p, n0 + 1, Len(p))
       IN [w EXCEPT !.out[op] = newv, !.fs[p] = IF a.k = "absent" THEN NoFS ELSE FS(newv.k, newv.x),
                    !.pushed = IF a.k = "absent" THEN @ ELSE Append(@, p)]
  ELSE IF parKind \in {"file", "symlink", "special"}
  THEN SkipEntry(w, p)                                    \* create_parent_dirs: not a directory
  ELSE
    LET d1 == [q \in Paths |-> IF q \in Ancestors(p) /\ w.disk[q].k = "absent" THEN DirV ELSE w.disk[q]]
        (* remove_old_file unlinks whatever non-directory is there *)
        deleted == b.k # "absent" /\ d1[p].k \in {"file", "symlink", "special"}
        d2 == IF deleted THEN [d1 EXCEPT ![p] = Absent] ELSE d1
        blocked == ~deleted /\ d2[p].k # "absent"         \* can_create_new_file
    IN
    IF blocked /\ ~(Bug = "co-overwrite" /\ FileLike(d2[p]))
    THEN SkipEntry([w EXCEPT !.disk = d1], p)
    ELSE IF a.k = "absent"
    THEN [w EXCEPT !.disk = RemoveEmptyParents(d2, p), !.fs[p] = NoFS]
    ELSE [w EXCEPT !.disk = [d2 EXCEPT ![p] = newv], !.fs[p] = FS(newv.k, newv.x),
                   !.pushed = Append(@, p)]

RECURSIVE RunEntries(_, _, _, _, _)
RunEntries(w, xp, seq, old, new) ==
  IF seq = <<>> THEN w
  ELSE RunEntries(EntryStep(w, xp, seq[1], old[seq[1]], new[seq[1]]), xp, Tail(seq), old, new)

(* update(old_tree, new_tree, matcher): S = the matched paths *)
Update(s, old, new, S) ==
  LET (* a conflict whose terms are unchanged but whose tree got other labels is written again *)
      changed == {p \in S : old[p] # new[p]
                            /\ ~(Bug = "co-labels-file-only"       \* seeded bug: only file conflicts are rewritten
                                 /\ old[p].k = "conflict" /\ new[p].k = "conflict"
                                 /\ old[p].m = new[p].m /\ NonFile(old[p].m))}
  IN RunEntries([disk |-> s.disk, out |-> s.out, fs |-> s.fs, stats |-> NoStats, pushed |-> <<>>],
                s.xp, FsOrder(old, new, changed), old, new)

(* FileStatesMap::merge_in debug-asserts that the changed file states arrive sorted by path *)
PushedSorted(w) == \A i, j \in 1..Len(w.pushed) : i < j => Pos(w.pushed[i]) < Pos(w.pushed[j])

(* LockedLocalWorkingCopy::check_out + finish *)
CanCheckOut(s, new) == s.err = ""
DoCheckOut(s, new) ==
  LET w == Update(s, s.tree, new, {p \in Paths : SparseMatch(s.sparse, p)})
  IN IF PushedSorted(w)
     THEN [s EXCEPT !.disk = w.disk, !.out = w.out, !.fs = w.fs, !.tree = new, !.stats = w.stats]
     ELSE [s EXCEPT !.disk = w.disk, !.out = w.out, !.err = "panic"]  \* debug builds; nothing saved

(* TreeState::set_sparse_patterns: add what enters, remove what leaves; the *)
(* code asserts that no removal was skipped                                 *)
EmptyTree == [p \in Paths |-> Absent]
CanSetSparse(s, sp) == s.err = ""
DoSetSparse(s, sp) ==
  LET entering == {p \in Paths : SparseMatch(sp, p) /\ ~SparseMatch(s.sparse, p)}
      leaving == {p \in Paths : SparseMatch(s.sparse, p) /\ ~SparseMatch(sp, p)}
      w1 == Update(s, EmptyTree, s.tree, entering)
      s1 == [s EXCEPT !.disk = w1.disk, !.out = w1.out, !.fs = w1.fs]
      w2 == Update(s1, s.tree, EmptyTree, leaving)
      stats == [added |-> w1.stats.added, updated |-> 0, removed |-> w2.stats.removed,
                skipped |-> w1.stats.skipped]
  IN IF w2.stats.skipped > 0 \/ ~PushedSorted(w1) \/ ~PushedSorted(w2)
     THEN (* assert_eq!(removed_stats.skipped_files, 0) fires: the process dies, nothing is saved *)
          [s EXCEPT !.disk = w2.disk, !.out = w2.out, !.err = "panic"]
     ELSE [s EXCEPT !.disk = w2.disk, !.out = w2.out,
                    !.fs = IF Bug = "sparse-delete" THEN w1.fs ELSE w2.fs,
                    !.sparse = sp, !.stats = stats,
                    !.tree = IF Bug = "sparse-drop-tree"
                             THEN [p \in Paths |-> IF SparseMatch(sp, p) THEN s.tree[p] ELSE Absent]
                             ELSE s.tree]

---------------------------------------------------------------------------
(* CONTRACTS                                                                *)

(* materialisation of a tree value on disk; exec bits are compared only     *)
(* when the policy respects them                                            *)
Mat(v) == IF v.k = "conflict" THEN MatFile(v.m, v.c, v.x) ELSE v
SameOnDisk(xp, dv, want) ==
  IF xp = "respect" THEN dv = want
  ELSE dv.k = want.k /\ dv.c = want.c /\ dv.t = want.t /\ dv.m = want.m

(* the disk a check-out of `tree` from scratch gives *)
MatDisk(tree, sp) ==
  [p \in Paths |->
     IF SparseMatch(sp, p) /\ tree[p].k # "absent" THEN Mat(tree[p])
     ELSE IF \E q \in Under(p) : SparseMatch(sp, q) /\ tree[q].k # "absent" THEN DirV
     ELSE Absent]
DiskIs(xp, disk, want) == \A p \in Paths : SameOnDisk(xp, disk[p], want[p])

(* nothing foreign, nothing modified: the disk is exactly the checked-out tree *)
Pristine(s) == DiskIs(s.xp, s.disk, MatDisk(s.tree, s.sparse))

(* ---- C23 ---- the tree `nt` is an acceptable result of snapshotting s.   *)
(* "already tracked" is what the user sees: the path is in the tree.        *)
RecordsDisk(s, p, v) ==
  LET dv == s.disk[p] IN
  IF dv.k = "symlink" THEN v = Sym(dv.t)
  ELSE IF s.tree[p].k = "conflict" /\ NonFile(s.tree[p].m) /\ v = s.tree[p] THEN TRUE
       (* a file-vs-symlink conflict stays until it is resolved explicitly: not C23's business *)
  ELSE IF dv.m # <<>> THEN v.k = "conflict" /\ v.m = dv.m /\ v.c = s.tree[p].c   \* unedited marker file: same conflict
  ELSE /\ v.k = "file" /\ v.c = dv.c
       /\ v.x = (IF s.xp = "respect" THEN dv.x
                 ELSE IF s.tree[p].k = "file" THEN s.tree[p].x ELSE FALSE)
SnapshotPathOK(s, nt, p) ==
  IF ~SparseMatch(s.sparse, p) THEN nt[p] = s.tree[p]   \* outside the patterns: untouched
  ELSE IF FileLike(s.disk[p])
       THEN IF s.tree[p].k # "absent" \/ ~IgnoredAlong(s.disk, p)
            THEN RecordsDisk(s, p, nt[p])               \* tracked or not ignored: recorded
            ELSE nt[p].k = "absent"                     \* ignored and untracked: stays out
       ELSE nt[p].k = "absent"                          \* not on disk (or a directory): removed
SnapshotOK(s, nt) == \A p \in Paths : SnapshotPathOK(s, nt, p)

(* ---- C24 ---- from a pristine working copy, check-out gives exactly the  *)
(* new tree on disk, nothing is skipped, and a snapshot would return it     *)
CheckOutOK(s, new, s2) ==
  Pristine(s) => /\ DiskIs(s.xp, s2.disk, MatDisk(new, s.sparse))
                 /\ s2.stats.skipped = 0
                 /\ s2.tree = new

(* ---- C25 ---- an update touching the paths T (from `old` to `new`) never *)
(* destroys what it does not own: files at untouched paths survive, an      *)
(* untracked file in the way survives and is reported skipped, nothing is   *)
(* written outside the workspace; and no path is dropped silently           *)
UpdateSafe(s, old, new, T, s2) ==
  /\ \A p \in Paths :
       FileLike(s.disk[p]) /\ (p \notin T \/ old[p] = new[p]) => s2.disk[p] = s.disk[p]
  /\ \A p \in T :
       (FileLike(s.disk[p]) /\ old[p] # new[p] /\ old[p].k = "absent")
          => (s2.disk[p] = s.disk[p] /\ s2.stats.skipped >= 1)
  /\ s2.out = s.out
  /\ s2.stats.skipped >=
       Cardinality({p \in T : old[p] # new[p] /\ new[p].k # "absent"
                              /\ ~SameOnDisk(s.xp, s2.disk[p], Mat(new[p]))})
CheckOutSafe(s, new, s2) ==
  UpdateSafe(s, s.tree, new, {p \in Paths : SparseMatch(s.sparse, p)}, s2)

(* ---- C27 ---- changing the patterns never changes the tree; files of     *)
(* the tree that enter appear, tracked files that leave disappear, nothing  *)
(* else changes                                                             *)
SparseOK(s, sp, s2) ==
  LET entering == {p \in Paths : SparseMatch(sp, p) /\ ~SparseMatch(s.sparse, p)}
      leaving == {p \in Paths : SparseMatch(s.sparse, p) /\ ~SparseMatch(sp, p)}
      parentOK(p) == \A q \in Ancestors(p) : s.disk[q].k \in {"dir", "absent"}
  IN
  /\ s2.err = ""
  /\ s2.tree = s.tree
  /\ s2.sparse = sp
  /\ \A p \in entering :
       (s.tree[p].k # "absent" /\ s.disk[p].k = "absent" /\ parentOK(p))
          => SameOnDisk(s.xp, s2.disk[p], Mat(s.tree[p]))
  /\ \A p \in leaving :
       (s.tree[p].k # "absent" /\ FileLike(s.disk[p])) => s2.disk[p].k = "absent"
  /\ \A p \in Paths :
       (FileLike(s.disk[p]) /\ ~(p \in leaving /\ s.tree[p].k # "absent")) => s2.disk[p] = s.disk[p]
  /\ s2.out = s.out
  /\ Pristine(s) => DiskIs(s.xp, s2.disk, MatDisk(s.tree, sp))

---------------------------------------------------------------------------
(* VERDICTS: the contracts applied to one transition s --action--> t, as the  *)
(* name of the first contract that fails ("ok" if none).  Used identically by *)
(* MC_WorkingCopy (t = the reference's result) and Trace_WorkingCopy (t = the *)
(* implementation's observed state).                                          *)
SnapshotContract(s, t) ==
  IF t.err = "panic" THEN "Panic:Snapshot"
  ELSE IF t.err # "" THEN "Error:Snapshot"
  ELSE IF t.disk # s.disk \/ t.out # s.out THEN "SnapshotChangedDisk"
  ELSE IF \E p \in Paths : ~SparseMatch(s.sparse, p) /\ t.tree[p] # s.tree[p] THEN "SnapshotOutsideSparse"
  ELSE IF ~SnapshotOK(s, t.tree) THEN "SnapshotOK"
  ELSE IF Pristine(s) /\ t.tree # s.tree THEN "SnapshotAfterCheckoutSame"
  ELSE IF t.sparse # s.sparse THEN "SnapshotChangedSparse"
  ELSE "ok"
CheckOutContract(s, new, t) ==
  IF t.err = "panic" THEN "Panic:CheckOut"
  ELSE IF t.err # "" THEN "Error:CheckOut"
  ELSE IF t.tree # new THEN "CheckOutTree"
  ELSE IF ~CheckOutOK(s, new, t) THEN "CheckOutOK"
  ELSE IF ~CheckOutSafe(s, new, t) THEN "CheckOutSafe"
  ELSE IF t.sparse # s.sparse THEN "CheckOutChangedSparse"
  ELSE "ok"
SparseContract(s, sp, t) ==
  IF t.err = "panic" THEN "Panic:SetSparse"
  ELSE IF t.err # "" THEN "Error:SetSparse"
  ELSE IF ~SparseOK(s, sp, t) THEN "SparseOK"
  ELSE "ok"

(* KNOWN FINDINGS (notes/wc.md, known-findings.txt): structural shapes of the  *)
(* pre-state in which the current code panics.                                 *)
(* F1: set_sparse_patterns asserts that no removal was skipped; a tracked path *)
(*     that leaves the patterns but is obstructed on disk (it is a directory   *)
(*     now, or its parent is not a directory) kills the process mid-update.    *)
SparsePanicShape(s, sp) ==
  \E p \in Paths : /\ SparseMatch(s.sparse, p) /\ ~SparseMatch(sp, p) /\ s.tree[p].k # "absent"
                    /\ (s.disk[p].k = "dir"
                        \/ \E q \in Ancestors(p) : s.disk[q].k \in {"file", "symlink", "special"})
(* F2: a skipped update entry leaves a placeholder file state behind; if the   *)
(*     path lies outside the sparse patterns no snapshot cleans it up and the  *)
(*     debug assertion "file states = tree paths" fires.                       *)
StaleStateShape(s) == \E p \in Paths : Tracked(s, p) /\ ~SparseMatch(s.sparse, p)
(* F4: a directory of a conflicted tree whose contents differ between the      *)
(*     sides is replaced on disk by a file: get_updated_tree_value sees an     *)
(*     unresolved merge of trees at that path, keeps it, and the new file is   *)
(*     never recorded (the directory's entries are removed): debug assertion.  *)
DirConflictShape(s) ==
  \E p \in Paths : s.disk[p].k = "file" /\ SparseMatch(s.sparse, p) /\ DirConflictAt(s, p)
(* F5: a (placeholder) file state on a path that is a directory on disk: the   *)
(*     snapshot reports the path deleted and the tombstone removes the whole   *)
(*     directory from the tree although its files are on disk and clean.       *)
TrackedDirShape(s) ==
  \E p \in Paths : Tracked(s, p) /\ s.disk[p].k = "dir" /\ \E q \in Under(p) : s.tree[q].k # "absent"
(* F6: the same placeholder state (F2, F5) on a path that is not in the tree    *)
(*     makes the walk treat an ignored, untracked file as "already tracked":   *)
(*     the snapshot records it (SnapshotOK fails, no panic).                   *)
StaleIgnoredShape(s) ==
  \E p \in Paths : /\ Tracked(s, p) /\ s.tree[p].k = "absent" /\ FileLike(s.disk[p])
                    /\ SparseMatch(s.sparse, p) /\ IgnoredAlong(s.disk, p)
(* F9: the tree has a file at a path OUTSIDE the sparse patterns and a pattern  *)
(*     lies below it (tree file d, pattern d/x): a new file d/x on disk is      *)
(*     auto-tracked and silently evicts d from the tree - a path outside the    *)
(*     patterns is recorded as deleted.                                         *)
SparseClashShape(s) ==
  \E p \in Paths : /\ ~SparseMatch(s.sparse, p) /\ s.tree[p].k # "absent"
                    /\ \E q \in Under(p) : SparseMatch(s.sparse, q) /\ FileLike(s.disk[q])
(* F8: visit_tracked_files stats tracked paths of an ignored directory by their *)
(*     full name; if a directory on the way was replaced by a symlink to a     *)
(*     directory outside the workspace that has the same sub-path, the         *)
(*     snapshot reads and records the OUTSIDE file instead of reporting the    *)
(*     path deleted (the ordinary walk treats the symlink as a file).          *)
ThroughSymlinkShape(s) ==
  \E p \in Paths : Tracked(s, p) /\ SparseMatch(s.sparse, p) /\ s.disk[p].k = "absent" /\ FileLike(Seen(s, p))
(* F7: a tracked path inside a directory that is ignored as a whole lies below   *)
(*     something that is no longer a directory (its parent directory was        *)
(*     replaced by a file or fifo): visit_tracked_files gets ENOTDIR from       *)
(*     symlink_metadata, which is not NotFound, and the snapshot (hence every   *)
(*     jj command) fails with "Failed to stat file" instead of recording the    *)
(*     path as deleted.                                                         *)
NotDirShape(s) ==
  \E p \in Paths : /\ Tracked(s, p) /\ SparseMatch(s.sparse, p)
                    /\ \E r \in Ancestors(p) : /\ s.disk[r].k \in {"file", "special"}
                                               /\ \E g \in Ancestors(r) : Ignored(s.disk, g, TRUE)
(* F3: the new tree has a file where the old tree has a directory, and the     *)
(*     removal of an old entry below it is skipped (the directory was replaced *)
(*     on disk by a file/symlink, or the entry itself by a directory): the     *)
(*     skipped entries are pushed before the path itself, so the changed file  *)
(*     states are not sorted                                                   *)
(*     (debug assertion in FileStatesMap::merge_in; unsorted states in release)*)
UnsortedShape(s, new) ==
  \E p \in Paths :
     /\ SparseMatch(s.sparse, p) /\ new[p].k # "absent"
     /\ \E q \in Under(p) :
          /\ SparseMatch(s.sparse, q) /\ s.tree[q].k # "absent"
          (* the removal of q is skipped: q is a directory now, or lies below a non-directory *)
          /\ (s.disk[q].k = "dir" \/ \E r \in Ancestors(q) : s.disk[r].k \in {"file", "symlink", "special"})
=============================================================================
