---------------------------- MODULE MC_OpHeadsGen ----------------------------
(* Schedule generator for the S->I binding of OpHeads: every complete      *)
(* behaviour of the model is emitted as its sequence of scheduling choices *)
(* (p = process p takes its next step, 100+p = process p is killed).       *)
EXTENDS OpHeads, TLC, Json

(* ---- schedule generator: history of (process, crash?) choices ---- *)
VARIABLE hist
HInit == Init /\ hist = <<>>
HNext == \/ FinalStart /\ UNCHANGED hist
         \/ \E p \in AllProcs : Step(p) /\ hist' = Append(hist, p)
         \/ \E p \in Procs : Crash(p) /\ hist' = Append(hist, 100 + p)
HSpec == HInit /\ [][HNext]_<<vars, hist>>
Complete == pc[Final] = "done"
EmitSchedule == Complete => PrintT(<<"REPLAY", ToJson(hist)>>)
=============================================================================
