SPECIFICATION Spec
CONSTANTS
  Keys = {1, 2, 3, 4}
  Writers = {1, 2}
  PutSets <- PS_q
  MaxSaves = 3
  MaxGets = 4
  Bug = "none"
INVARIANTS LaterWins
VIEW View
CHECK_DEADLOCK FALSE
