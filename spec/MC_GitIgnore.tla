--------------------------- MODULE MC_GitIgnore ---------------------------
(* Design-level check of GitIgnore on the enumerated domain, and the       *)
(* definition of that domain for the three-way binding: ignore files at    *)
(* the root and in one sub-directory, <= MaxRoot / MaxSub lines each from  *)
(* Vocab, judged on the path universe Paths.  The domain is grown by Next. *)
(* `gitsync ignore` enumerates exactly the same product from the VOCAB     *)
(* record printed here.                                                    *)
EXTENDS GitIgnore, TLC, Json

CONSTANTS Vocab, Paths, SubDir, MaxRoot, MaxSub, Bug

VARIABLE st          \* [root |-> seq of Vocab indexes, sub |-> seq of Vocab indexes]

C(s) == s            \* readability: a string of 1-char tokens is written as a tuple
MC_Vocab12 == <<
  <<"a">>,                     \* literal, any depth
  <<"*", "b">>,                \* star
  <<"?">>,                     \* one character
  <<"/", "a">>,                \* leading slash: only next to the ignore file
  <<"e", "/">>,                \* directory only
  <<"!", "a">>,                \* negation
  <<"*", "*", "/", "a">>,      \* leading globstar
  <<"d", "/", "*", "*">>,      \* trailing globstar
  <<"d", "/", "e">>,           \* middle slash anchors
  <<"\\", "!", "a">>,          \* escaped bang: the file named !a
  <<"!", "*", "/">>,           \* re-include every directory
  <<"*">> >>                   \* everything
MC_Vocab18 == MC_Vocab12 \o <<
  <<"#", "a">>,                \* comment
  <<"a", " ">>,                \* unescaped trailing space
  <<"e", "/", "*">>,           \* star after a slash
  <<"!", "e", "/", "a">>,      \* anchored negation
  <<"!", "d", "/">>,           \* negated directory-only
  <<"*", "*", "/", "e", "/">> >>  \* globstar + directory only

MC_Vocab24 == MC_Vocab18 \o <<
  <<"d", "/", "*", "*", "/", "a">>,   \* middle globstar: zero or more directories
  <<"*", "/", "a">>,              \* star as one directory
  <<"\\", "#", "a">>,             \* escaped hash: not a comment
  <<"d", "/", "*", "/", "a">>,      \* star directory in the middle
  <<"!", "!", "a">>,              \* negation of the pattern "!a"
  <<"*", "*">> >>                 \* bare double star

F(p) == [p |-> p, d |-> FALSE]
D(p) == [p |-> p, d |-> TRUE]
MC_Paths == <<
  F(<< <<"a">> >>), F(<< <<"b">> >>), F(<< <<"a", "b">> >>), F(<< <<"!", "a">> >>),
  D(<< <<"d">> >>), D(<< <<"e">> >>), D(<< <<"d">>, <<"e">> >>),
  F(<< <<"d">>, <<"a">> >>), F(<< <<"d">>, <<"a", "b">> >>), F(<< <<"d">>, <<"e">>, <<"a">> >>),
  F(<< <<"e">>, <<"a">> >>), F(<< <<"e">>, <<"b">> >>) >>
MC_SubDir == << <<"d">> >>

ASSUME PrintT(<<"VOCAB", ToJson([vocab |-> Vocab, paths |-> Paths, sub |-> SubDir])>>)

Lines(ix) == [i \in 1..Len(ix) |-> Vocab[ix[i]]]
Stack(s) == << [prefix |-> <<>>, lines |-> Lines(s.root)], [prefix |-> SubDir, lines |-> Lines(s.sub)] >>

Init == st = [root |-> <<>>, sub |-> <<>>]
Next == \/ /\ Len(st.root) < MaxRoot
           /\ \E v \in 1..Len(Vocab) : st' = [st EXCEPT !.root = Append(st.root, v)]
        \/ /\ Len(st.sub) < MaxSub
           /\ \E v \in 1..Len(Vocab) : st' = [st EXCEPT !.sub = Append(st.sub, v)]
Spec == Init /\ [][Next]_st

(* seeded design bugs (anti-vacuity): variants of the stack semantics *)
BugFileVerdict(lines, rel, isdir) ==
  LET M == MatchingLines(lines, rel, isdir) IN
  IF M = {} THEN "none"
  ELSE LET i == IF Bug = "first_match" THEN CHOOSE x \in M : \A y \in M : x <= y
                ELSE CHOOSE x \in M : \A y \in M : y <= x
       IN IF Parse(lines[i]).neg /\ Bug # "negation_ignores" THEN "include" ELSE "ignore"
BugDecide(stack, path, isdir) ==
  LET O == {k \in 1..Len(stack) :
              /\ IsProperPrefix(stack[k].prefix, path)
              /\ BugFileVerdict(stack[k].lines, Rel(stack[k].prefix, path), isdir) # "none"} IN
  IF O = {} THEN FALSE
  ELSE LET k == IF Bug = "outer_wins" THEN CHOOSE x \in O : \A y \in O : x <= y
                ELSE CHOOSE x \in O : \A y \in O : y <= x
       IN BugFileVerdict(stack[k].lines, Rel(stack[k].prefix, path), isdir) = "ignore"
BugIgnored(stack, path, isdir) ==
  \/ BugDecide(stack, path, isdir)
  \/ (Bug # "reinclude_inside" /\ \E k \in 1..(Len(path) - 1) : BugDecide(stack, SubSeq(path, 1, k), TRUE))
TheIgnored(stack, path, isdir) ==
  IF Bug = "none" THEN Ignored(stack, path, isdir) ELSE BugIgnored(stack, path, isdir)

PathIx == 1..Len(Paths)
Ign(i) == TheIgnored(Stack(st), Paths[i].p, Paths[i].d)
DirAbove(i, j) == Paths[i].d /\ IsProperPrefix(Paths[i].p, Paths[j].p)
NoIgnoredAncestor(j) == \A i \in PathIx : DirAbove(i, j) => ~Ign(i)

(* the transcription of the snapshot walk computes the contract *)
InvWalk == \A i \in PathIx : WalkIgnored(Stack(st), Paths[i].p, Paths[i].d) = Ign(i)
(* everything under an ignored directory is ignored *)
InvInsideIgnoredDir == \A i, j \in PathIx : DirAbove(i, j) /\ Ign(i) => Ign(j)
(* within one file the last matching line decides *)
InvLastLineWins ==
  \A j \in PathIx :
    (st.sub = <<>> /\ st.root # <<>> /\ NoIgnoredAncestor(j)
       /\ PatMatches(Parse(Vocab[Last(st.root)]), Paths[j].p, Paths[j].d))
    => (Ign(j) <=> ~Parse(Vocab[Last(st.root)]).neg)
(* the file nearest to the path decides when it has an opinion *)
InvInnerFileWins ==
  \A j \in PathIx :
    (IsProperPrefix(SubDir, Paths[j].p) /\ NoIgnoredAncestor(j)
       /\ FileVerdict(Lines(st.sub), Rel(SubDir, Paths[j].p), Paths[j].d) # "none")
    => (Ign(j) <=> FileVerdict(Lines(st.sub), Rel(SubDir, Paths[j].p), Paths[j].d) = "ignore")
=============================================================================
