SPECIFICATION MCSpec
CONSTANTS
  Procs = {1, 2}
  Final = 0
  NCmds = 2
  LocksWork = TRUE
  MaxCrashes = 2
  Bug = "none"
INVARIANTS NonEmptyHeads PublishedReachable HeadsExist NoFailure FinalOK
CHECK_DEADLOCK FALSE
