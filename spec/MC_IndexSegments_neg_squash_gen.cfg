SPECIFICATION Spec
CONSTANTS
  MaxCommits = 9
  MaxOps = 6
  MaxParents = 1
  MaxPerTx = 6
  AllowHide = FALSE
  Shape = "chain"
  Bug = "squash_gen"
INVARIANTS InvWellFormed InvGeometric InvSquashKeeps InvMergeComplete InvLevelsRule
CHECK_DEADLOCK FALSE
