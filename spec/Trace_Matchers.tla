--------------------------- MODULE Trace_Matchers ---------------------------
(* Judge for C30 (S->I results): one record per matcher expression that    *)
(* TLC generated; the harness built the real matcher and logged matches()  *)
(* over the universe and visit() at every directory.                       *)
EXTENDS Matchers, Json, IOUtils, TLC

Rec == ndJsonDeserialize(IOEnv.TRACE)

VARIABLE l

BadVisits(r) == LET ms == MatchSet(r.m) IN {i \in 1..Len(r.visits) : ~VisitOKs(ms, r.visits[i].d, r.visits[i])}
Verdict(r) ==
  IF r.op = "matcher" THEN
       IF {r.visits[i].d : i \in 1..Len(r.visits)} # Dirs THEN "harness:dirs-not-covered"
       ELSE IF ~MatchesOK(r.m, r.matched) THEN "MatchesOK"
       ELSE IF BadVisits(r) # {}
            THEN "VisitOK:" \o r.visits[CHOOSE i \in BadVisits(r) : \A j \in BadVisits(r) : i <= j].t
       ELSE "ok"
  ELSE IF r.op = "panic" THEN "Panic"
  ELSE "harness:unknown-op"

Diverges(r) ==
  r.op = "matcher" /\ \E i \in 1..Len(r.visits) : ~SameVisit(r.visits[i], RefVisit(r.m, r.visits[i].d))

Init == l = 1
Next ==
  \/ /\ l <= Len(Rec)
     /\ LET v == Verdict(Rec[l]) IN
          /\ (IF v = "ok" THEN TRUE ELSE PrintT(<<"BAD", l, v>>))
          /\ (IF Diverges(Rec[l]) THEN PrintT(<<"DIVERGES", l>>) ELSE TRUE)
     /\ l' = l + 1
  \/ /\ l = Len(Rec) + 1
     /\ PrintT(<<"JUDGED", Len(Rec)>>)
     /\ l' = l + 1
Spec == Init /\ [][Next]_l
=============================================================================
