SPECIFICATION Spec
CONSTANTS
  Keys = {1, 2, 3, 4}
  Writers = {1, 2, 3}
  PutSets <- PS_q
  MaxSaves = 4
  MaxGets = 4
  Bug = "none"
INVARIANTS AllSavedFound LaterWinsExceptKnown HeadsNeverLost SaveView
VIEW View
CHECK_DEADLOCK FALSE
