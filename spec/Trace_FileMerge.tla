-------------------------- MODULE Trace_FileMerge --------------------------
(* I->S binding for C04: every record is one call of the real              *)
(* files::merge_hunks / merge / try_merge with the hunk partition the merge *)
(* is made over (harness `text fmerge`); TLC judges it against the          *)
(* contracts of spec/FileMerge.tla.                                         *)
(* Slot-file records (field `slots`) additionally validate the assumption   *)
(* spec/Tree makes (content merge of slot files = slot-wise trivial merge): *)
(* a mismatch there is reported as verdict "assume:Slotwise", which the     *)
(* check reports separately from C04 violations.                            *)
EXTENDS FileMerge, Json, IOUtils, TLC

Rec == ndJsonDeserialize(IOEnv.TRACE)

VARIABLE l

(* the harness's rendering of slot files:  A0 s1v<v> A1 s2v<v> A2 ...  *)
SlotBytes(vec) ==
  <<65, 48, 10>> \o Cat([i \in 1..Len(vec) |-> <<115, 48 + i, 118, 48 + vec[i], 10, 65, 48 + i, 10>>], 1)
SlotwiseOK(r) ==
  LET k == Len(r.slots[1])
      sr == [s \in 1..k |-> TrivialRef([t \in 1..Len(r.slots) |-> r.slots[t][s]], r.accept)]
      all == \A s \in 1..k : sr[s] # NoValue
  IN /\ r.t.some = all
     /\ all => r.t.content = SlotBytes(sr)

Verdict(r) ==
  IF r.op = "fmerge" THEN
       IF ~IsMerge(r.terms) \/ r.level \notin {"line", "word"} THEN "harness:bad-record"
       ELSE IF "slots" \in DOMAIN r /\ r.terms # [t \in 1..Len(r.slots) |-> SlotBytes(r.slots[t])]
            THEN "harness:slot-rendering"
       ELSE IF ~PartitionOK(r.terms, r.level, r.lh, r.wh) THEN "PartitionOK"
       ELSE IF ~LawTrivial(r.terms, r.accept, r.mh, r.m, r.t) THEN "LawTrivial"
       ELSE IF ~LawShape(r.terms, r.mh, r.m, r.t) THEN "LawShape"
       ELSE IF ~LawHunksAgree(r.terms, r.mh, r.m) THEN "LawHunksAgree"
       ELSE IF ~FileMergeOK(r.terms, r.accept, r.level, r.lh, r.wh, r.mh, r.m, r.t) THEN "FileMergeOK"
       ELSE IF "slots" \in DOMAIN r /\ ~SlotwiseOK(r) THEN "assume:Slotwise"
       ELSE "ok"
  ELSE IF r.op = "panic" THEN "Panic"
  ELSE IF r.op = "domain" THEN "ok"
  ELSE "harness:unknown-op"

Diverges(r) ==
  IF r.op = "fmerge"
  THEN ~FollowsReference(r.terms, r.accept, r.level, r.lh, r.wh, r.mh, r.m, r.t)
  ELSE FALSE

Init == l = 1
Next ==
  \/ /\ l <= Len(Rec)
     /\ LET v == Verdict(Rec[l]) IN
          /\ (IF v = "ok" THEN TRUE ELSE PrintT(<<"BAD", l, v>>))
          /\ (IF v = "ok" /\ Diverges(Rec[l]) THEN PrintT(<<"DIVERGES", l>>) ELSE TRUE)
     /\ l' = l + 1
  \/ /\ l = Len(Rec) + 1
     /\ PrintT(<<"JUDGED", Len(Rec)>>)
     /\ l' = l + 1
Spec == Init /\ [][Next]_l
=============================================================================
