----------------------- MODULE Trace_ConflictMarkers -----------------------
(* I->S binding for C05 (op "roundtrip": materialize_merge_result_to_bytes  *)
(* + parse_conflict) and C06 (op "snapshot": update_from_content against a  *)
(* real store).  The recorded bytes are decoded here, by the specification's *)
(* parser; the harness only records.                                        *)
EXTENDS ConflictMarkers, Json, IOUtils, TLC

Rec == ndJsonDeserialize(IOEnv.TRACE)

VARIABLE l

Styles == {"diff", "diffexp", "snapshot", "git"}

RoundTripVerdict(r) ==
  IF ~IsMerge(r.terms) \/ r.style \notin Styles \/ r.nsides # NumSides(r.terms) THEN "harness:bad-record"
  ELSE IF ~WriterOK(r.mh, r.mat, r.nsides, r.len) THEN "WriterOK"
  ELSE IF ~ParserOK(r.mh, r.parsed) THEN "ParserOK"
  ELSE "ok"

(* content of the simplified term j = content of a position of ids holding the same id *)
SimpContent(r, j) == r.idc[CHOOSE i \in 1..Len(r.ids) : r.ids[i] = r.simp[j]]
SnapshotVerdict(r) ==
  IF ~IsMerge(r.ids) \/ Len(r.idc) # Len(r.ids) \/ Len(r.outc) # Len(r.out) THEN "harness:bad-record"
  ELSE IF ~SimplifyOK(r.ids, r.simp) \/ Len(r.simp) # 2 * r.nsides - 1 THEN "SimplifyOK"
  ELSE IF r.new = r.mat THEN (IF UneditedOK(r.ids, r.out) THEN "ok" ELSE "UneditedOK")
  ELSE IF ~EditInScope(r.mh, r.mat, r.new, r.nsides, r.len) THEN "ok"          \* the property says nothing
  ELSE IF EditAppliedOK(r.ids, r.idc, r.simp, r.new, r.nsides, r.len, r.out, r.outc) THEN "ok"
  ELSE "EditAppliedOK"

Verdict(r) ==
  IF r.op = "roundtrip" THEN RoundTripVerdict(r)
  ELSE IF r.op = "snapshot" THEN SnapshotVerdict(r)
  ELSE IF r.op = "panic" THEN "Panic"
  ELSE IF r.op \in {"domain", "options"} THEN "ok"
  ELSE "harness:unknown-op"

(* divergence from the reference transcription (never a violation):         *)
(*  - the marker length differs from the reference rule                     *)
(*  - jj's parser and the specification's parser disagree on a file (seen   *)
(*    on edited files; on materialised files that is a ParserOK violation)  *)
(*  - in-scope marker: an edited snapshot that was in scope (and therefore  *)
(*    judged by EditAppliedOK, whatever the verdict) is flagged "INSCOPE"   *)
(*    so the check can count how many edits the contract judged             *)
Diverges(r) ==
  IF r.op = "roundtrip" THEN r.autolen # RefMarkerLen(r.terms)
  ELSE FALSE
InScope(r) ==
  r.op = "snapshot" /\ r.new # r.mat /\ EditInScope(r.mh, r.mat, r.new, r.nsides, r.len)

Init == l = 1
Next ==
  \/ /\ l <= Len(Rec)
     /\ LET v == Verdict(Rec[l]) IN
          /\ (IF v = "ok" THEN TRUE ELSE PrintT(<<"BAD", l, v>>))
          /\ (IF v = "ok" /\ Diverges(Rec[l]) THEN PrintT(<<"DIVERGES", l>>) ELSE TRUE)
          /\ (IF v \in {"ok", "EditAppliedOK"} /\ InScope(Rec[l]) THEN PrintT(<<"INSCOPE", l>>) ELSE TRUE)
     /\ l' = l + 1
  \/ /\ l = Len(Rec) + 1
     /\ PrintT(<<"JUDGED", Len(Rec)>>)
     /\ l' = l + 1
Spec == Init /\ [][Next]_l
=============================================================================
