SPECIFICATION Spec
CONSTANTS
  Values = {1, 2, 3, 4}
  MaxLen = 9
  NestValues = {1, 2, 3}
  MaxOuter = 3
  MaxInner = 3
  Bug = "none"
INVARIANTS InvSimplify InvTrivial InvFlatten
CHECK_DEADLOCK FALSE
