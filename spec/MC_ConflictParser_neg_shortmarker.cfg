SPECIFICATION Spec
CONSTANTS
  Bug = "shortmarker"
  NTexts = 4
INVARIANTS InvPrefix InvOpen InvMonotone InvResult
CHECK_DEADLOCK FALSE
