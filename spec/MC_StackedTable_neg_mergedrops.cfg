SPECIFICATION Spec
CONSTANTS
  Keys = {1, 2}
  Writers = {1, 2}
  PutSets <- PS_small
  MaxSaves = 3
  MaxGets = 4
  Bug = "mergedrops"
INVARIANTS AllSavedFound
VIEW View
CHECK_DEADLOCK FALSE
