SPECIFICATION Spec
CONSTANTS
  K = 3
  Kinds = {"view", "op"}
  Emit = TRUE
  RepLevel = 1
  Bug = "none"
INVARIANTS InvView InvOp EmitInv
CHECK_DEADLOCK FALSE
