SPECIFICATION Spec
CONSTANTS
  NB = 1
  Par <- MC_Par3
  GitOnly = {3}
  MaxSteps = 0
  MaxTerms = 5
  Emit = "none"
  Bug = "export_silent"
CONSTRAINT Small
VIEW View
INVARIANTS InvConverge
CHECK_DEADLOCK FALSE
