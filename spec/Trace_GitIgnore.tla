-------------------------- MODULE Trace_GitIgnore --------------------------
(* Judge for C28.  One record = one case (ignore file at the root, ignore   *)
(* file in the sub-directory) with, per path of the universe, the answers   *)
(* of jj (twice: rooted and under a case-directory prefix), of              *)
(* `git check-ignore`, and optionally of a real snapshot.  The contract is  *)
(* GitIgnore!Ignored.  Git corroborates the contract: a record on which the *)
(* spec and git differ is outside the judged pattern language and is        *)
(* reported as a harness/spec error ("harness:..."), never as a violation.  *)
EXTENDS GitIgnore, Json, IOUtils, TLC

Rec == ndJsonDeserialize(IOEnv.TRACE)

VARIABLE l

StackOf(r) == << [prefix |-> <<>>, lines |-> r.root], [prefix |-> r.subdir, lines |-> r.sub] >>
Want(r, x) == Ignored(StackOf(r), x.p, x.d)

Ix(r) == DOMAIN r.res
HasSnap(x) == "snap" \in DOMAIN x

Verdict(r) ==
  IF r.op = "domain" THEN "ok"
  ELSE IF r.op = "panic" THEN "Panic"
  ELSE IF r.op # "ignore" THEN "harness:unknown-op"
  ELSE IF \E i \in Ix(r) : r.res[i].git # Want(r, r.res[i]) THEN "harness:spec-disagrees-with-git"
  ELSE IF \E i \in Ix(r) : r.res[i].jj # Want(r, r.res[i]) THEN "IgnoredOK"
  ELSE IF \E i \in Ix(r) : r.res[i].jjp # Want(r, r.res[i]) THEN "IgnoredUnderPrefixOK"
  ELSE IF \E i \in Ix(r) : HasSnap(r.res[i]) /\ r.res[i].snap # Want(r, r.res[i]) THEN "SnapshotIgnoredOK"
  ELSE "ok"

(* the transcription of the walk is evaluated too; it cannot differ from    *)
(* the contract (InvWalk), so no divergence is possible here                *)
Init == l = 1
Next ==
  \/ /\ l <= Len(Rec)
     /\ LET v == Verdict(Rec[l]) IN (IF v = "ok" THEN TRUE ELSE PrintT(<<"BAD", l, v>>))
     /\ l' = l + 1
  \/ /\ l = Len(Rec) + 1
     /\ PrintT(<<"JUDGED", Len(Rec)>>)
     /\ l' = l + 1
Spec == Init /\ [][Next]_l
=============================================================================
