---------------------------- MODULE MC_Matchers ----------------------------
(* Design-level check and S->I generator for C30.                          *)
(*  - every expression of nesting depth <= MaxNest over the leaf matchers  *)
(*    is a state (grown by Next, so TLC's workers share the domain);       *)
(*  - InvVisit: the reference transcription of Matcher::visit meets the    *)
(*    contract VisitOK at every directory of the universe;                 *)
(*  - EmitInv prints each expression as JSON: the harness builds the real  *)
(*    matcher from it and records matches()/visit() for Trace_Matchers.    *)
EXTENDS Matchers, TLC, Json, FnRand, SequencesExt

CONSTANTS MaxNest, Bug, Emit,
          EmitMod,      \* replay every depth-2 expression (1) or the third of them selected by VERIF_SEED (3)
          Samples       \* 0: exhaustive; K > 0: K pseudo-random chains (FnRand, seeded by VERIF_SEED)

VARIABLES m, depth, id

P(s) == s          \* readability: a path literal
Leaves == <<
  [k |-> "all"],
  [k |-> "none"],
  [k |-> "files",  ps |-> << <<"a", "ab">>, <<"ab">>, <<"A", "a", "a">> >>],
  [k |-> "prefix", ps |-> << <<"a">> >>],
  [k |-> "prefix", ps |-> << <<"a", "ab">>, <<"A">>, <<"ab", "a", "A">> >>],
  [k |-> "glob", pm |-> FALSE, gs |-> << [dir |-> <<>>, pat |-> <<"a*">>],
                                         [dir |-> <<"A">>, pat |-> <<"?", "a">>] >>],
  [k |-> "glob", pm |-> FALSE, gs |-> << [dir |-> <<"a">>, pat |-> <<"**", "ab">>] >>],
  [k |-> "glob", pm |-> TRUE,  gs |-> << [dir |-> <<>>, pat |-> <<"*", "a">>],
                                         [dir |-> <<"ab", "a">>, pat |-> <<"a*">>] >>]
>>
LeafSet == Range(Leaves)
Ops == {"union", "inter", "diff"}
Pool1 == LeafSet \cup {[k |-> op, a |-> x, b |-> y] : op \in Ops, x \in LeafSet, y \in LeafSet}
Pool(n) == IF n = 0 THEN LeafSet ELSE Pool1

Pool1Seq == SetToSeq(Pool1)
OpSeq == <<"union", "inter", "diff">>
Init == /\ depth = 0
        /\ IF Samples = 0 THEN id = 0 /\ m \in LeafSet
                           ELSE id \in 1..Samples /\ m = Pick(Leaves, id, 0, 1)
Next == /\ depth < MaxNest
        /\ IF Samples = 0
           THEN \E op \in Ops, y \in Pool(depth) : m' = [k |-> op, a |-> m, b |-> y]
           ELSE LET y == Pick(Pool1Seq, id, depth, 2)  op == Pick(OpSeq, id, depth, 3) IN
                  m' = IF Draw(id, depth, 4) % 2 = 0 THEN [k |-> op, a |-> m, b |-> y]
                                                     ELSE [k |-> op, a |-> y, b |-> m]
        /\ depth' = depth + 1
        /\ id' = id
Spec == Init /\ [][Next]_<<m, depth, id>>

(* seeded design bugs (negative configs) *)
BugDiffVisit(wanted, unwanted) ==      \* forgets to downgrade AllRecursively
  IF unwanted.t = "all" THEN VNothing ELSE wanted
BugInterVisit(v1, v2) ==               \* prunes to the first operand's sets only
  IF v1.t = "all" THEN v2
  ELSE IF v1.t = "nothing" \/ v2.t = "nothing" THEN VNothing
  ELSE IF v2.t = "all" THEN v1
  ELSE VSets(IF v1.da THEN {} ELSE v1.ds, IF v1.fa THEN {} ELSE v1.fs)
RECURSIVE TheVisit(_, _)
TheVisit(e, d) ==
  CASE e.k = "union" -> UnionVisit(TheVisit(e.a, d), TheVisit(e.b, d))
    [] e.k = "inter" -> IF Bug = "inter" THEN BugInterVisit(TheVisit(e.a, d), TheVisit(e.b, d))
                                          ELSE InterVisit(TheVisit(e.a, d), TheVisit(e.b, d))
    [] e.k = "diff"  -> IF Bug = "diff" THEN BugDiffVisit(TheVisit(e.a, d), TheVisit(e.b, d))
                                         ELSE DiffVisit(TheVisit(e.a, d), TheVisit(e.b, d))
    [] OTHER -> RefVisit(e, d)

InvVisit == LET ms == MatchSet(m) IN \A d \in Dirs : VisitSetOKs(ms, d, TheVisit(m, d))
(* pruning is also *useful*: a leaf matcher never asks to visit a          *)
(* directory with nothing below it in an unbounded universe is not         *)
(* claimed; only soundness is.                                             *)

Selected == \/ EmitMod = 1 \/ depth # 2 \/ Samples > 0
            \/ \E i \in 1..Len(Pool1Seq) : Pool1Seq[i] = m.b /\ i % EmitMod = Seed % EmitMod
EmitInv == (Emit /\ depth >= 1 /\ Selected) => PrintT(<<"CASE", ToJson(m)>>)
=============================================================================
