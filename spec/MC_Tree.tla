----------------------------- MODULE MC_Tree -----------------------------
(* Design-level check and S->I generator for C07.                          *)
(*  - every merge of trees over the configured path/value universe, grown  *)
(*    by Next: the reference transcription of MergedTree::merge meets the  *)
(*    path-wise contract (except on the known-finding shape), one side     *)
(*    equal to the base yields the other side, resolve is idempotent;      *)
(*  - with Emit = TRUE every explored merge is printed as a REPLAY case    *)
(*    for the harness (`tree merge`), whose records Trace_Tree judges.     *)
EXTENDS Tree, TLC, Json

CONSTANTS LF, LD, LX, LY,      \* leaf values allowed at f, d (as a file), d/x, d/y (each contains 0)
          MaxTerms,            \* arity bound of the outer merge
          Nested,              \* allow already-conflicted (3-term) input trees
          Accepts,             \* same-change settings to check: subset of BOOLEAN
          ExcludeFinding,      \* TRUE: exempt the known-finding shape from InvContract
          Bug,                 \* seeded observation bug for the negative configs
          Emit, EmitMin        \* print REPLAY cases for merges of >= EmitMin outer terms

VARIABLE mm                    \* the input: a merge of merges of trees (Merge<MergedTree>)

TreeSet == {t \in [f : LF, d : LD, x : LX, y : LY] : IsTree(t)}
Term == IF Nested THEN {<<t>> : t \in TreeSet} \cup {<<a, b, c>> : a, b, c \in TreeSet}
        ELSE {<<t>> : t \in TreeSet}

Init == \E t \in Term : mm = <<t>>
Next == /\ Len(mm) + 2 <= MaxTerms
        /\ \E a, b \in Term : mm' = mm \o <<a, b>>
Spec == Init /\ [][Next]_mm

(* random growth for -simulate (generation only).  RandTerm has a dummy    *)
(* parameter so that TLC does not evaluate it once as a constant            *)
RandTree(k) == RandomElement(TreeSet)
RandTerm(k) == IF Nested /\ RandomElement(1..4) = 1
               THEN <<RandTree(k), RandTree(k + 1), RandTree(k + 2)>>
               ELSE <<RandTree(k)>>
SimInit == mm \in {<<<<t>>>> : t \in TreeSet}
SimNext == /\ Len(mm) + 2 <= MaxTerms
           /\ mm' = mm \o <<RandTerm(Len(mm)), RandTerm(Len(mm) + 3)>>
SimSpec == SimInit /\ [][SimNext]_mm

Inputs == Flatten(mm)

(* seeded bugs (anti-vacuity): corrupt what the merged tree answers *)
Observe(R, acc) ==
  LET o == RefObserve(R, acc) IN
  IF Bug = "flag" THEN [o EXCEPT !.hc = FALSE]
  ELSE IF Bug = "side" THEN [o EXCEPT !.pv.f = <<o.pv.f[1]>>]          \* conflict silently takes side 1
  ELSE IF Bug = "subdir" THEN [o EXCEPT !.pv.x = <<Absent>>]           \* a subtree entry is dropped
  ELSE IF Bug = "paths" THEN [o EXCEPT !.cf = o.cf \ {"d/y", "d"}]      \* a conflict is not listed
  ELSE o

InvContract ==
  \A acc \in Accepts :
    \/ ExcludeFinding /\ FileTermsCancelLeavingTrees(Inputs, acc)
    \/ MergeOK(Inputs, acc, Observe(RefMerge(mm, acc), acc))

(* merge(<<x, b, b>>) = merge(<<b, b, x>>) = x, and with same-change accepted merge(<<x, b, x>>) = x *)
InvOneSideEqualsBase ==
  (Len(mm) = 3 /\ \A i \in 1..3 : Len(mm[i]) = 1) =>
    LET a == mm[1][1]  b == mm[2][1]  c == mm[3][1] IN
    \A acc \in Accepts :
      /\ a = b => RefMerge(mm, acc) = <<c>>
      /\ c = b => RefMerge(mm, acc) = <<a>>
      /\ (acc /\ a = c) => RefMerge(mm, acc) = <<a>>

(* jj's own debug assertion in resolve(): merging the result again changes nothing *)
InvResolveIdempotent ==
  \A acc \in Accepts :
    \/ FileTermsCancelLeavingTrees(Inputs, acc)
    \/ LET R == RefMerge(mm, acc) IN RefMergeTrees(R, acc) = R

(* the path-wise definition itself is order-insensitive: it only depends on the signed multiset *)
InvPathMergeDenote ==
  \A acc \in Accepts :
    LET ts == Inputs IN
    /\ NormEq(PathMerge(FV(ts), acc), PathMerge(Simplify(FV(ts)), acc), acc)
    /\ NormEq(PathMerge(DV(ts), acc), PathMerge(Simplify(DV(ts)), acc), acc)

(* C08 at design level: a merge <<newBase, oldBase, old>> of merged (stable) *)
(* trees obeys the two rebase laws                                          *)
Stable(t, acc) == Len(t) = 1 \/ (Simplify(t) = t /\ RefMergeTrees(t, acc) = t)
InvRebaseLaws ==
  Len(mm) = 3 =>
    \A acc \in Accepts :
      ((\A i \in 1..3 : Stable(mm[i], acc)) /\ ~FileTermsCancelLeavingTrees(Inputs, acc)) =>
        RebaseLawsVerdict(RefPathValue(mm[3], acc), RefPathValue(mm[2], acc), RefPathValue(mm[1], acc),
                          RefPathValue(RefMerge(mm, acc), acc), acc) = "ok"

EmitInv ==
  (Emit /\ Len(mm) >= EmitMin) => PrintT(<<"REPLAY", ToJson([mm |-> mm])>>)
=============================================================================
