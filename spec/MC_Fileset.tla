----------------------------- MODULE MC_Fileset -----------------------------
(* Design-level check and S->I generator for C31.                          *)
(*  Leaves: every pattern (kind x token sequence of <= MaxToks tokens),     *)
(*  evaluated from every cwd (exhaustive, grown by Next).                   *)
(*  Operators: pseudo-random expression chains over a pool of patterns      *)
(*  (FnRand, seeded by VERIF_SEED).                                         *)
EXTENDS Fileset, TLC, Json, FnRand, SequencesExt

CONSTANTS MaxToks, MaxNest, Samples, Bug, Emit

Kinds == <<"cwd", "file", "root", "root-file", "glob", "glob-i", "prefix-glob", "prefix-glob-i", "bare",
           "root-glob", "root-glob-i", "root-prefix-glob", "root-prefix-glob-i">>
PatTokens == Comps \cup {".", "..", ""} \cup GlobSegs
Cwds == << <<>>, <<"a">>, <<"a", "ab">> >>

VARIABLES e, cwd, depth, id

Pat(K, t) == [k |-> "pat", kind |-> K, toks |-> t]
PoolSeq == <<
  [k |-> "all"], [k |-> "none"],
  Pat("cwd", <<"a">>), Pat("root", <<"a", "ab">>), Pat("file", <<"..", "ab">>), Pat("root-file", <<"A", "a">>),
  Pat("glob", <<"a*">>), Pat("glob", <<"**", "a">>), Pat("root-glob", <<"a", "*", "ab">>),
  Pat("glob-i", <<"a", "?">>), Pat("prefix-glob", <<"*", "a">>), Pat("root-prefix-glob-i", <<"a*">>),
  Pat("bare", <<".">>), Pat("bare", <<"ab">>), Pat("cwd", <<"..", "..", "..">>), Pat("root", <<".">>) >>
OpSeq == <<"and", "diff", "or", "not">>

Init == /\ depth = 0
        /\ \/ /\ id = 0 /\ \E c \in Range(Cwds), i \in 1..Len(Kinds) : cwd = c /\ e = Pat(Kinds[i], <<>>)
           \/ /\ id \in 1..Samples /\ cwd = Pick(Cwds, id, 0, 5) /\ e = Pick(PoolSeq, id, 0, 1)
NoDoubleStar(t, c) == ~(c = "**" /\ \E i \in 1..Len(t) : t[i] = "**")
Next == \/ /\ id = 0 /\ Len(e.toks) < MaxToks
           /\ \E c \in PatTokens : NoDoubleStar(e.toks, c) /\ e' = [e EXCEPT !.toks = Append(e.toks, c)]
           /\ UNCHANGED <<cwd, depth, id>>
        \/ /\ id > 0 /\ depth < MaxNest
           /\ LET y == Pick(PoolSeq, id, depth, 2)  op == Pick(OpSeq, id, depth, 3) IN
                e' = IF op = "not" THEN [k |-> "not", a |-> e]
                     ELSE IF Draw(id, depth, 4) % 2 = 0 THEN [k |-> op, a |-> e, b |-> y]
                                                        ELSE [k |-> op, a |-> y, b |-> e]
           /\ depth' = depth + 1
           /\ UNCHANGED <<cwd, id>>
Spec == Init /\ [][Next]_<<e, cwd, depth, id>>

(* design-level sanity of the evaluation (anti-vacuity via Bug):           *)
(*  - a resolvable pattern never selects a path outside what its kind      *)
(*    allows: a cwd-relative literal without ".." stays below cwd;          *)
(*  - negation is complement, the binary operators are the set operations.  *)
TheToMatcher(x, c) ==
  IF Bug = "notnone" /\ x.k = "not" THEN FOk([k |-> "none"]) ELSE ToMatcher(x, c)
Den(x) == LET d == TheToMatcher(x, cwd) IN IF d.ok THEN MatchSet(d.m) ELSE {}
InvAlgebra ==
  LET d == TheToMatcher(e, cwd) IN
    d.ok => CASE e.k = "not"  -> Den(e) = Universe \ Den(e.a)
              [] e.k = "and"  -> Den(e) = Den(e.a) \cap Den(e.b)
              [] e.k = "diff" -> Den(e) = Den(e.a) \ Den(e.b)
              [] e.k = "or"   -> Den(e) = Den(e.a) \cup Den(e.b)
              [] OTHER -> TRUE
InvConfinedToCwd ==
  (e.k = "pat" /\ ~IsRootKind(e.kind) /\ (\A i \in 1..Len(e.toks) : e.toks[i] \notin {"..", ""})) =>
     LET d == TheToMatcher(e, cwd) IN d.ok /\ \A p \in MatchSet(d.m) : IsPrefix(cwd, p)

EmitInv == Emit => PrintT(<<"CASE", ToJson([e |-> e, cwd |-> cwd])>>)
=============================================================================
