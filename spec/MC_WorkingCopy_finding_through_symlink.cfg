SPECIFICATION Spec
CONSTANTS
  Paths <- StdPaths
  PathOrder <- StdPathOrder
  IgnoreVocab <- StdIgnoreVocab
  Bug = "none"
  MaxSteps = 3
  MaxEditRun = 3
  Acts = {"DirToSymlink", "Snapshot", "CheckOut"}
  EditPaths <- DirPaths
  Contents = {2}
  SymTargets = {"out/x"}
  RootIgnore = {}
  DirIgnore = {}
  TreeIds = {12}
  SparseIds = {}
  XP = "respect"
  Strict = "all"
  Emit = FALSE
INVARIANTS Inv_C23
VIEW View
CHECK_DEADLOCK FALSE
