SPECIFICATION Spec
CONSTANTS
  Paths <- StdPaths
  PathOrder <- StdPathOrder
  IgnoreVocab <- StdIgnoreVocab
  Bug = "none"
  MaxSteps = 10
  MaxEditRun = 2
  Acts = {"Write", "Chmod", "Delete", "Mkfifo", "FileToDir", "DirToFile", "DirToSymlink", "RmTree", "Symlink", "CheckOut", "Snapshot"}
  EditPaths <- AllEditPaths
  Contents = {1, 2}
  SymTargets = {"out", "f", "out/x"}
  RootIgnore = {1, 2, 3, 4, 7}
  DirIgnore = {3, 5, 6}
  TreeIds = {1, 2, 3, 4, 5, 6, 7, 8, 9, 10, 11, 12, 13, 14, 15, 16, 17, 18}
  SparseIds = {1, 2, 3, 4, 5, 6}
  XP = "respect"
  Strict = "none"
  Emit = TRUE
INVARIANTS EmitInv
CHECK_DEADLOCK FALSE
