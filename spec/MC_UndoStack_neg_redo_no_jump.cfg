SPECIFICATION Spec
CONSTANTS
  MaxLen = 7
  InitOps = 3
  WithRestore = FALSE
  Bug = "redo_no_jump"
  Emit = FALSE
INVARIANTS InvRefines InvStackInLog InvUndoRedoInverse InvAdjacentDiffer
CHECK_DEADLOCK FALSE
