---------------------------- MODULE StackedTable ----------------------------
(* lib/src/stacked_table.rs: content-addressed table segments stacked on a  *)
(* parent, a directory of head files, writers that may hold stale heads.    *)
(*                                                                          *)
(* A segment is the record [parent |-> segment or NoSeg, entries |-> local  *)
(* map]; being content-addressed, a segment IS its content.  Values are     *)
(* positive naturals, unique per Put (so a value identifies the Put that    *)
(* wrote it); 0 means "no entry".                                           *)
(*                                                                          *)
(* Reference transcriptions: Squash (maybe_squash_with_ancestors), Walk /   *)
(* MergeIn (MutableTable::merge_in), SaveTable, GetHead(Locked).            *)
(* Contracts (C21): AllSavedFound, LaterWins, SaveView.                     *)
EXTENDS Naturals, Sequences, FiniteSets

NoSeg == [nil |-> TRUE]      \* TLC cannot compare a record with a number
Empty == <<>>                          \* the empty map

NumLocal(s) == Cardinality(DOMAIN s.entries)
RECURSIVE NumEntries(_)
NumEntries(s) == IF s = NoSeg THEN 0 ELSE NumLocal(s) + NumEntries(s.parent)
RECURSIVE Lookup(_, _)
Lookup(s, k) == IF s = NoSeg THEN 0
                ELSE IF k \in DOMAIN s.entries THEN s.entries[k] ELSE Lookup(s.parent, k)
(* b's entries win over a's *)
Over(a, b) == [k \in DOMAIN a \cup DOMAIN b |-> IF k \in DOMAIN b THEN b[k] ELSE a[k]]
RECURSIVE Chain(_)
Chain(s) == IF s = NoSeg THEN <<>> ELSE <<NumLocal(s)>> \o Chain(s.parent)

(* maybe_squash_with_ancestors: absorb the parent while 2*new >= its size *)
RECURSIVE Squash(_, _, _)
Squash(parent, entries, numNew) ==
  IF parent = NoSeg THEN [parent |-> NoSeg, entries |-> entries]
  ELSE IF 2 * numNew < NumLocal(parent) THEN [parent |-> parent, entries |-> entries]
  ELSE Squash(parent.parent, Over(parent.entries, entries), numNew + NumLocal(parent))

(* save_in: an empty mutation on a parent is the parent itself *)
SaveIn(parent, entries) ==
  IF entries = Empty /\ parent # NoSeg THEN parent
  ELSE Squash(parent, entries, Cardinality(DOMAIN entries))

(* save_table: persist, add the new head, then remove the parent's head file *)
HeadsAfterSave(heads, parent, t) ==
  (heads \cup {t}) \ (IF parent # NoSeg /\ parent # t THEN {parent} ELSE {})

(* merge_in: which of other's segments get copied (newest first) *)
RECURSIVE Walk(_, _, _)
Walk(own, other, acc) ==
  IF other = NoSeg THEN acc
  ELSE IF own = NoSeg THEN Walk(own, other.parent, Append(acc, other))
  ELSE IF own = other THEN acc
  ELSE IF NumEntries(own) < NumEntries(other) THEN Walk(own, other.parent, Append(acc, other))
  ELSE Walk(own.parent, other, acc)
RECURSIVE CopyOldestFirst(_, _, _)
CopyOldestFirst(e, files, i) ==         \* files is newest first
  IF i = 0 THEN e ELSE CopyOldestFirst(Over(e, files[i].entries), files, i - 1)
MergeIn(ownParent, e, other) ==
  LET files == Walk(ownParent, other, <<>>) IN CopyOldestFirst(e, files, Len(files))
RECURSIVE MergeAll(_, _, _, _)
MergeAll(first, e, order, i) ==
  IF i > Len(order) THEN e ELSE MergeAll(first, MergeIn(first, e, order[i]), order, i + 1)

(* get_head / get_head_locked on the listing `order` (a sequence of heads):  *)
(* result table and resulting heads                                         *)
GetHeadTable(order) ==
  IF Len(order) = 0 THEN [parent |-> NoSeg, entries |-> Empty]
  ELSE IF Len(order) = 1 THEN order[1]
  ELSE SaveIn(order[1], MergeAll(order[1], Empty, order, 2))
GetHeadHeads(heads, order) ==
  IF Len(order) = 0 THEN {GetHeadTable(order)}
  ELSE IF Len(order) = 1 THEN heads
  ELSE LET t == GetHeadTable(order) IN
       \* the merged table may be content-identical to one of the other heads:
       \* its head file must then stay
       HeadsAfterSave(heads, order[1], t) \ {order[i] : i \in {j \in 2..Len(order) : order[j] # t}}

----------------------------------------------------------------------------
(* CONTRACTS, over the ghost log of completed saves.  A save record is      *)
(*   [w, puts (map k -> v), seen (map k -> value the writer's base table    *)
(*    had for k, 0 if none), squashed (the new segment's parent is not the   *)
(*    base table: ancestors were folded in)]                                 *)

(* values for k that a later sequential save overwrote *)
Superseded(saved, k) ==
  {saved[i].seen[k] : i \in {j \in 1..Len(saved) : k \in DOMAIN saved[j].puts /\ saved[j].seen[k] # 0}}
PutKeys(saved) == UNION {DOMAIN saved[i].puts : i \in 1..Len(saved)}

(* every entry any completed save recorded is found *)
AllSavedFoundIn(saved, look) == \A k \in PutKeys(saved) : look[k] # 0
(* a later sequential save of a key wins over an earlier one *)
LaterWinsIn(saved, look, k) == look[k] \notin Superseded(saved, k)
(* the known deviation (DESIGN 7, C21): a save (or a merge) folded ancestor  *)
(* segments into a new parentless segment ("squash"), so merge_in no longer  *)
(* recognises the shared ancestry and copies stale entries over newer ones.  *)
(* Shape: the regressed entry k |-> v was a local entry of a segment that    *)
(* some save or merge squashed.  sqentries = set of such <<k, v>>.           *)
SquashHidesAncestry(sqentries, k, v) == <<k, v>> \in sqentries
RECURSIVE ChainSegs(_)
ChainSegs(s) == IF s = NoSeg THEN {} ELSE {s} \cup ChainSegs(s.parent)
(* entries of the segments of `base`'s stack that are no longer in `t`'s stack *)
FoldedEntries(base, t) ==
  UNION {{<<k, s.entries[k]>> : k \in DOMAIN s.entries} : s \in ChainSegs(base) \ ChainSegs(t)}
(* saving (and squashing) never changes a lookup: base view overlaid with puts *)
SaveViewOK(seen, puts, look, keys) ==
  \A k \in keys : look[k] = IF k \in DOMAIN puts THEN puts[k] ELSE seen[k]
=============================================================================
