SPECIFICATION Spec
CONSTANTS
  Vocab <- MC_Vocab12
  Paths <- MC_Paths
  SubDir <- MC_SubDir
  MaxRoot = 1
  MaxSub = 0
  Bug = "negation_ignores"
INVARIANTS InvLastLineWins
CHECK_DEADLOCK FALSE
