SPECIFICATION Spec
CONSTANTS
  LF = {0}
  LD = {0, 10}
  LX = {0, 20}
  LY = {0}
  MaxTerms = 3
  Nested = TRUE
  Accepts = {TRUE, FALSE}
  ExcludeFinding = TRUE
  Bug = "none"
  Emit = FALSE
  EmitMin = 1
INVARIANTS InvRebaseLaws InvContract
CHECK_DEADLOCK FALSE
