-------------------------------- MODULE Repo --------------------------------
(* A model of jj-lib's repository layer: commits, views (visible heads,     *)
(* local bookmarks, working-copy pointers), transactions with rewrite       *)
(* records, rebase_descendants, committed operations, concurrent operations *)
(* and their reconciliation, predecessor (evolution) records.               *)
(* (lib/src/repo.rs MutableRepo, transaction.rs, view.rs, evolution.rs)     *)
(*                                                                          *)
(* Vocabulary                                                               *)
(*   commits are 1..Len(par); Root = 1; par[c] = ordered parents; every     *)
(*   parent id is smaller than its child (ids are handed out in creation    *)
(*   order).  chg[c] change id, dsc[c] description token (0 = empty),       *)
(*   emp[c] = "the commit's tree equals its merged parents' tree".          *)
(*   view = [heads : set, bm : <<target,...>>, wc : <<commit or 0,...>>];   *)
(*   a target is a RefTarget merge, <<0>> = no bookmark; wc 0 = no such     *)
(*   workspace.                                                             *)
(*   rewrite records  M : key -> [k : "rw"|"ab"|"dv", n : Seq(commit)]      *)
(*   (Rewritten / Abandoned(new parents) / Divergent).                      *)
(*                                                                          *)
(* Part 1  CONTRACTS  (judge; C10 ViewOK, C11 RebaseOK, C13 MergeOK,        *)
(*                     C46 WalkOK) - used by MC_Repo invariants and by      *)
(*                     Trace_Repo on recorded states of the real code.      *)
(* Part 2  REFERENCE TRANSCRIPTIONS (explain; rebase_descendants,           *)
(*                     merge_view/record_rewrites, walk_predecessors).      *)
(* Part 3  STATE MACHINE (one action per public mutation).                  *)
EXTENDS RefTarget, TLC

Root == 1
ToSet(s) == {s[i] : i \in 1..Len(s)}
Max(S) == CHOOSE x \in S : \A y \in S : y <= x
RECURSIVE SortedSeq(_)
SortedSeq(S) == IF S = {} THEN <<>> ELSE LET m == Min(S) IN <<m>> \o SortedSeq(S \ {m})
Visible(par, heads) == AncOf(par, heads)
BmAdds(v) == UNION {AddIds(v.bm[i]) : i \in DOMAIN v.bm}
WcSet(v) == {v.wc[w] : w \in DOMAIN v.wc} \ {0}
Discardable(dsc, emp, c) == emp[c] /\ dsc[c] = 0

(* fully resolved replacements of c under the records FM, and the kinds met *)
RECURSIVE ResolveSet(_, _)
ResolveSet(FM, c) ==
  IF c \notin DOMAIN FM THEN {c} ELSE UNION {ResolveSet(FM, d) : d \in ToSet(FM[c].n)}
RECURSIVE KindsOf(_, _)
KindsOf(FM, c) ==
  IF c \notin DOMAIN FM THEN {} ELSE {FM[c].k} \cup UNION {KindsOf(FM, d) : d \in ToSet(FM[c].n)}


-----------------------------------------------------------------------------
(*                        Part 1 - CONTRACTS                                *)

(* C10: a committed view has normalized heads that cover every reference.   *)
ViewVerdict(par, v) ==
  IF v.heads = {} \/ ~(v.heads \subseteq Nodes(par)) THEN "ViewOK:no-heads"
  ELSE IF v.heads # Heads(par, v.heads) THEN "ViewOK:head-is-ancestor-of-head"
  ELSE IF Root \in v.heads /\ v.heads # {Root} THEN "ViewOK:root-among-heads"
  ELSE IF ~(BmAdds(v) \subseteq Visible(par, v.heads)) THEN "ViewOK:bookmark-target-hidden"
  ELSE IF ~(WcSet(v) \subseteq Visible(par, v.heads)) THEN "ViewOK:wc-commit-hidden"
  ELSE "ok"
ViewOK(par, v) == ViewVerdict(par, v) = "ok"

(* C11.  M = the rewrite records given to rebase_descendants, rb = what it  *)
(* reported per rebased descendant (old -> [k |-> "rw", n |-> <<new>>] or   *)
(* [k |-> "ab", n |-> <<parent>>] when dropped as empty), v0/v1 = the view  *)
(* before/after, nOld = number of commits that existed before the call,     *)
(* opts = [empty |-> "keep"|"newly"|"all", del |-> BOOLEAN].                *)
FullMap(M, rb) == rb @@ M
NonDvKeys(FM) == {k \in DOMAIN FM : FM[k].k # "dv"}

RbNoOrphan(par, FM, V1) ==
  \A c \in V1 \ DOMAIN FM : \A p \in ParentSet(par, c) : p \in DOMAIN FM => FM[p].k = "dv"
RbOldHidden(par, FM, V1) ==
  LET kept == {d \in DOMAIN FM : FM[d].k = "dv" /\ \E c \in V1 \ DOMAIN FM : d \in ParentSet(par, c)}
  IN (DOMAIN FM \cap V1) \subseteq AncOf(par, kept)
RbMetadata(chg, dsc, rb, opts, nOld, V1) ==
  \A c \in DOMAIN rb :
     IF rb[c].k = "rw"
     THEN LET n == rb[c].n[1] IN n > nOld /\ chg[n] = chg[c] /\ dsc[n] = dsc[c] /\ n \in V1
     ELSE opts.empty # "keep"
RbNoLoss(M, rb, V0, V1) == \A c \in V0 \ DOMAIN M : c \in V1 \/ c \in DOMAIN rb
RbBookmarkOK(par, M, FM, opts, t0, t1) ==
  /\ AddIds(t1) \cap NonDvKeys(FM) = {}
  /\ IF AddIds(t0) \cap DOMAIN FM = {} THEN t1 = t0
     ELSE IF Normal(t0) THEN
          LET k == t0[1]  R == ResolveSet(FM, k)  kinds == KindsOf(FM, k)
              mustDel == opts.del /\ FM[k].k = "ab"
              mayDel  == opts.del /\ "ab" \in kinds
          IN IF mustDel THEN t1 = <<Absent>>
             ELSE \/ (mayDel /\ t1 = <<Absent>>)
                  \/ (AddIds(t1) = R /\ (Cardinality(R) = 1 => t1 = <<CHOOSE r \in R : TRUE>>))
     ELSE AddIds(t1) \subseteq UNION {ResolveSet(FM, a) : a \in AddIds(t0)}
RbWcOK(par, chg, dsc, emp, FM, nOld, V1, k0, k1) ==
  IF k0 = 0 \/ k0 \notin DOMAIN FM THEN k1 = k0
  ELSE LET R == ResolveSet(FM, k0)  kinds == KindsOf(FM, k0) IN
       IF "ab" \notin kinds THEN k1 \in R
       ELSE /\ k1 > nOld /\ emp[k1] /\ dsc[k1] = 0
            /\ ParentSet(par, k1) = R
            /\ \A c \in V1 \ {k1} : chg[c] # chg[k1]
RbChangeIds(chg, M, FM, V0, V1) ==
  \A c, d \in V1 \ DOMAIN FM :
     (c # d /\ chg[c] = chg[d]) =>
        \/ \E a, b \in V0 : a # b /\ chg[a] = chg[c] /\ chg[b] = chg[c]
        \/ \E k \in DOMAIN M : M[k].k = "dv" /\ chg[k] = chg[c]

(* the finding of DESIGN section 7: working copy at a commit whose own      *)
(* record is Rewritten (or Divergent) and whose rewrite chain ends in an    *)
(* Abandoned commit                                                         *)
WcRewrittenThenAbandoned(FM, k0) ==
  k0 # 0 /\ k0 \in DOMAIN FM /\ FM[k0].k # "ab" /\ "ab" \in KindsOf(FM, k0)
(* second finding: the input records contain a chain k -> .. -> p of length  *)
(* >= 2 whose end p had itself to be rebased by the call; the ordering of   *)
(* rebase_descendants follows only direct replacements, so a descendant of  *)
(* k can be rebased onto p before p is, and stays on the old p              *)
OrphanOnTransitiveReplacement(par, M, rb, V1) ==
  LET FM == FullMap(M, rb) IN
  \A c \in V1 \ DOMAIN FM : \A p \in ParentSet(par, c) :
     (p \in DOMAIN FM /\ FM[p].k # "dv") =>
        /\ p \in DOMAIN rb
        /\ \E k \in DOMAIN M : p \in ResolveSet(M, k) /\ p \notin ToSet(M[k].n)

RebaseVerdict(par, chg, dsc, emp, v0, M, rb, opts, v1, nOld) ==
  LET FM == FullMap(M, rb)
      V0 == Visible(par, v0.heads)
      V1 == Visible(par, v1.heads)
  IN IF ~RbNoOrphan(par, FM, V1)
        THEN (IF OrphanOnTransitiveReplacement(par, M, rb, V1)
              THEN "RebaseOK:orphan-on-transitive-replacement" ELSE "RebaseOK:orphan")
     ELSE IF ~RbOldHidden(par, FM, V1) THEN "RebaseOK:old-commit-visible"
     ELSE IF ~RbMetadata(chg, dsc, rb, opts, nOld, V1) THEN "RebaseOK:rebased-metadata"
     ELSE IF ~RbNoLoss(M, rb, V0, V1) THEN "RebaseOK:commit-lost"
     ELSE IF \E i \in DOMAIN v0.bm : ~RbBookmarkOK(par, M, FM, opts, v0.bm[i], v1.bm[i])
          THEN "RebaseOK:bookmark-did-not-follow"
     ELSE IF \E w \in DOMAIN v0.wc : ~RbWcOK(par, chg, dsc, emp, FM, nOld, V1, v0.wc[w], v1.wc[w])
          THEN (IF \E w \in DOMAIN v0.wc : /\ ~RbWcOK(par, chg, dsc, emp, FM, nOld, V1, v0.wc[w], v1.wc[w])
                                           /\ ~WcRewrittenThenAbandoned(FM, v0.wc[w])
                THEN "RebaseOK:wc-did-not-follow"
                ELSE "RebaseOK:wc-rewritten-then-abandoned")
     ELSE IF ~RbChangeIds(chg, M, FM, V0, V1) THEN "RebaseOK:duplicate-change-id"
     ELSE "ok"

(* C11/C46 at commit time: every rewrite made in the transaction (explicit  *)
(* or by rebase) is in the operation's predecessor records, and every       *)
(* commit created by the transaction has a record.                          *)
PredsVerdict(preds, pending, created) ==
  IF \E pr \in pending : pr[2] \notin DOMAIN preds \/ pr[1] \notin ToSet(preds[pr[2]])
    THEN "PredsOK:rewrite-without-predecessor"
  ELSE IF ~(created \subseteq DOMAIN preds) THEN "PredsOK:commit-without-record"
  ELSE "ok"

(* C13.  vb, va, vo, vm = base / self side / other side / reconciled views; *)
(* preds = predecessor records of every operation known (commit -> Seq);    *)
(* nOld = commits that existed before the reconciliation.                   *)
RECURSIVE PredClosure(_, _)
PredClosure(preds, S) ==
  LET P == UNION {ToSet(preds[c]) : c \in S \cap DOMAIN preds} IN
  IF P \subseteq S THEN S ELSE PredClosure(preds, S \cup P)
RewrittenInto(chg, preds, VM, c) ==
  {d \in VM : chg[d] = chg[c] /\ c \in PredClosure(preds, {d})}
DiscardableLeft(dsc, emp, va, vo, vm, c) ==
  /\ Discardable(dsc, emp, c)
  /\ c \notin BmAdds(vm) /\ c \notin WcSet(vm)
  /\ c \in WcSet(va) \cup WcSet(vo)
(* G = [par, chg, dsc, emp, preds, va, vo, vm, VB, VA, VO, VM, nOld]       *)
Removed(G) == (G.VB \ G.VA) \cup (G.VB \ G.VO)
Kept(G) == G.VM \ Removed(G)
(* where a reference to c ends up: c itself if neither side removed it;     *)
(* else the commits with c's change that the removing side added (this is   *)
(* how record_rewrites matches) or, for a commit a side created, the copy   *)
(* the reconciliation rebased it into; else (abandoned) where its parents   *)
(* end up                                                                   *)
Successors(G, c) ==
  LET fromA == IF c \in G.VB \ G.VA THEN {d \in G.VA \ G.VB : G.chg[d] = G.chg[c]} ELSE {}
      fromO == IF c \in G.VB \ G.VO THEN {d \in G.VO \ G.VB : G.chg[d] = G.chg[c]} ELSE {}
      fromM == IF c \notin G.VB THEN {d \in G.VM : d > G.nOld /\ G.chg[d] = G.chg[c]} ELSE {}
  IN (fromA \cup fromO \cup fromM) \ {c}
RECURSIVE ImgSet(_, _)
ImgSet(G, c) ==
  IF c \in Kept(G) THEN {c}
  ELSE IF Successors(G, c) # {} THEN UNION {ImgSet(G, d) : d \in Successors(G, c)}
  ELSE UNION {ImgSet(G, p) : p \in ParentSet(G.par, c)}
MgNoLoss(G) ==
  \A c \in (G.VA \cup G.VO) \ G.VB :
     \/ c \in G.VM
     \/ RewrittenInto(G.chg, G.preds, G.VM, c) # {}
     \/ DiscardableLeft(G.dsc, G.emp, G.va, G.vo, G.vm, c)
MgHidden(G) ==
  (* a commit one side rewrote/abandoned stays visible only below a commit  *)
  (* that side rewrote divergently (its descendants are left in place)      *)
  LET kept == {c \in Removed(G) \cap G.VM :
                 \/ Cardinality({d \in G.VA \ G.VB : G.chg[d] = G.chg[c]}) >= 2
                 \/ Cardinality({d \in G.VO \ G.VB : G.chg[d] = G.chg[c]}) >= 2}
  IN (Removed(G) \cap G.VM) \subseteq AncOf(G.par, kept)
MgBookmarkOK(G, tb, ta, to, tm) ==
  LET Stable(t) == AddIds(t) \subseteq Kept(G)
      StableAll(t) == Ids(t) \subseteq Kept(G)
      Img(t) == UNION {ImgSet(G, a) : a \in AddIds(t)}
      ImgAll(t) == UNION {ImgSet(G, a) : a \in Ids(t)}
      Pushed(t) ==     \* t pushed through the other side's rewrites
        /\ AddIds(tm) \subseteq ImgAll(t)
        /\ (AddIds(t) # {} => AddIds(tm) # {})
        /\ (Normal(t) /\ Cardinality(Img(t)) = 1) => tm = <<CHOOSE x \in Img(t) : TRUE>>
  IN IF ta = tb /\ to = tb THEN (IF Stable(tb) THEN tm = tb ELSE Pushed(tb))
     ELSE IF to = tb THEN (IF Stable(ta) THEN tm = ta ELSE Pushed(ta))
     ELSE IF ta = tb THEN (IF Stable(to) THEN tm = to ELSE Pushed(to))
     ELSE IF ta = to THEN (IF Stable(ta) THEN tm = ta ELSE Pushed(ta))
     ELSE IF StableAll(ta) /\ StableAll(to) /\ StableAll(tb) THEN RefMergeOK(G.par, ta, tb, to, tm)
     ELSE /\ AddIds(tm) \subseteq ImgAll(ta) \cup ImgAll(tb) \cup ImgAll(to)
          (* something survives unless the merge algebra cancels everything (C12's "no  *)
          (* side dropped" counts net-positive ids: two different resolutions a and o   *)
          (* of a conflicted base <a - 0 + o> give a - (a + o) + o = absent)            *)
          /\ (AddIds(ta) # {} /\ AddIds(to) # {} /\ NetPositiveIds(ta, tb, to) # {}) => AddIds(tm) # {}
MgWcOK(G, wb, wa, wo, wm) ==
  LET WcImg(c) == IF c = 0 THEN {0}
                  ELSE IF c \in Kept(G) THEN {c}
                  ELSE IF Successors(G, c) # {} THEN UNION {ImgSet(G, d) : d \in Successors(G, c)}
                  ELSE {n \in G.VM : n > G.nOld /\ G.emp[n] /\ G.dsc[n] = 0}
      StillThere(c) == \/ c = 0 \/ c \in G.VM \/ RewrittenInto(G.chg, G.preds, G.VM, c) # {}
                       \/ DiscardableLeft(G.dsc, G.emp, G.va, G.vo, G.vm, c)
                       \/ c \in Removed(G)
  IN IF wo = wb THEN wm \in WcImg(wa)
     ELSE IF wa = wb THEN wm \in WcImg(wo)
     ELSE /\ wm \in WcImg(wa) \cup WcImg(wo)
          /\ StillThere(wa) /\ StillThere(wo)

MergeVerdict(par, chg, dsc, emp, preds, vb, va, vo, vm, nOld) ==
  LET G == [par |-> par, chg |-> chg, dsc |-> dsc, emp |-> emp, preds |-> preds,
            va |-> va, vo |-> vo, vm |-> vm, nOld |-> nOld,
            VB |-> Visible(par, vb.heads), VA |-> Visible(par, va.heads),
            VO |-> Visible(par, vo.heads), VM |-> Visible(par, vm.heads)]
  IN IF ~MgNoLoss(G) THEN "MergeOK:commit-lost"
     ELSE IF ~MgHidden(G) THEN "MergeOK:removed-commit-visible"
     ELSE IF \E i \in DOMAIN vb.bm : ~MgBookmarkOK(G, vb.bm[i], va.bm[i], vo.bm[i], vm.bm[i])
          THEN "MergeOK:bookmark-change-lost"
     ELSE IF \E w \in DOMAIN vb.wc : ~MgWcOK(G, vb.wc[w], va.wc[w], vo.wc[w], vm.wc[w])
          THEN "MergeOK:wc-change-lost"
     ELSE "ok"

(* C46.  preds = union of the predecessor records of the operations         *)
(* reachable from the one the walk runs at; out = the emitted commits.      *)
WalkVerdict(preds, start, out, failed) ==
  LET expected == PredClosure(preds, {start}) IN
  IF failed THEN "WalkOK:error"
  ELSE IF \E i, j \in 1..Len(out) : i # j /\ out[i] = out[j] THEN "WalkOK:commit-listed-twice"
  ELSE IF ToSet(out) # expected THEN "WalkOK:incomplete-or-extra"
  ELSE IF \E i, j \in 1..Len(out) :
            i < j /\ out[j] \in DOMAIN preds /\ out[i] \in ToSet(preds[out[j]])
       THEN "WalkOK:predecessor-before-successor"
  ELSE "ok"

-----------------------------------------------------------------------------
(*                 Part 2 - REFERENCE TRANSCRIPTIONS                        *)

(* View::normalize_heads *)
NormalizeHeads(par, hs) ==
  IF hs = {} THEN {Root}
  ELSE IF Cardinality(hs) = 1 THEN hs
  ELSE Heads(par, hs \ {Root})

(* MutableRepo::rewritten_ids_with: depth-first replacement, first          *)
(* occurrence wins.  expandDv = FALSE is new_parents() (Divergent records   *)
(* are not followed), TRUE is resolve_rewrite_mapping_with(|_| true).       *)
RECURSIVE RewrittenIds(_, _, _, _, _)
RewrittenIds(M, expandDv, todo, acc, seen) ==
  IF todo = <<>> THEN acc
  ELSE LET id == Head(todo)  rest == Tail(todo) IN
       IF id \in seen THEN RewrittenIds(M, expandDv, rest, acc, seen)
       ELSE IF id \in DOMAIN M /\ (expandDv \/ M[id].k # "dv")
            THEN RewrittenIds(M, expandDv, M[id].n \o rest, acc, seen \cup {id})
            ELSE RewrittenIds(M, expandDv, rest, Append(acc, id), seen \cup {id})
NewParents(M, ids) == RewrittenIds(M, FALSE, ids, <<>>, {})
ResolveAll(M, id) == RewrittenIds(M, TRUE, <<id>>, <<>>, {})

(* itertools::intersperse(news, old): <<n1, old, n2, old, n3>> *)
Intersperse(news, old) ==
  [i \in 1..(2 * Len(news) - 1) |-> IF Odd(i) THEN news[(i + 1) \div 2] ELSE old]

(* the repository state a transaction works on *)
(* R = [par, chg, dsc, emp, view, M, preds]                                 *)
FreshChg(R) == Max(ToSet(R.chg)) + 1
FreshDsc(R) == Max(ToSet(R.dsc)) + 1
AddCommit(R, parents, c, d, e, pr) ==
  LET n == Len(R.par) + 1 IN
  [R EXCEPT !.par = Append(R.par, parents), !.chg = Append(R.chg, c),
            !.dsc = Append(R.dsc, d), !.emp = Append(R.emp, e),
            !.preds = (n :> pr) @@ R.preds,
            !.view.heads = R.view.heads \cup {n}]

(* maybe_abandon_wc_commit(w): the commit the workspace leaves is recorded  *)
(* abandoned if it is discardable, a head, and nothing else refers to it    *)
MaybeAbandonWc(R, w) ==
  LET x == R.view.wc[w]
      hs == NormalizeHeads(R.par, R.view.heads)
      others == {R.view.wc[u] : u \in DOMAIN R.view.wc \ {w}} \cup BmAdds(R.view)
  IN IF x = 0 THEN R
     ELSE LET R1 == [R EXCEPT !.view.heads = hs] IN
          IF Discardable(R.dsc, R.emp, x) /\ x \notin others /\ x \in hs
          THEN [R1 EXCEPT !.M = (x :> [k |-> "ab", n |-> R.par[x]]) @@ R.M]
          ELSE R1
(* MutableRepo::edit; editing the root is an error (panics inside           *)
(* rebase_descendants): the model records it in the field `panic`           *)
EditWc(R, w, c) ==
  LET R1 == MaybeAbandonWc(R, w) IN
  [R1 EXCEPT !.view.heads = R1.view.heads \cup {c}, !.view.wc[w] = c]

(* --- rebase_descendants_with_options ------------------------------------ *)
RbToVisit(R) ==
  (DescOf(R.par, DOMAIN R.M) \cap AncOf(R.par, R.view.heads)) \ DOMAIN R.M
(* order_commits_for_rebase: parents first, and the DIRECT replacements of  *)
(* a rewritten parent first                                                 *)
RbDeps(R0, tv, c) ==
  (ParentSet(R0.par, c) \cap tv)
  \cup (UNION {ToSet(R0.M[p].n) : p \in ParentSet(R0.par, c) \cap DOMAIN R0.M} \cap tv)
(* one descendant: rebase_commit_with_options *)
RbStep(S, c, empty) ==
  LET R == S.R  np == NewParents(R.M, R.par[c]) IN
  IF np = R.par[c] THEN S
  ELSE IF empty = "all" /\ R.emp[c] /\ Len(np) = 1
       THEN [S EXCEPT !.R.M = (c :> [k |-> "ab", n |-> np]) @@ R.M,
                      !.rb = (c :> [k |-> "ab", n |-> np]) @@ S.rb]
       ELSE LET n == Len(R.par) + 1
                R1 == AddCommit(R, np, R.chg[c], R.dsc[c], R.emp[c], <<c>>)
            IN [S EXCEPT !.R = [R1 EXCEPT !.M = (c :> [k |-> "rw", n |-> <<n>>]) @@ R.M],
                         !.rb = (c :> [k |-> "rw", n |-> <<n>>]) @@ S.rb]
RECURSIVE RbLoop(_, _, _, _, _)
RbLoop(S, R0, tv, remaining, empty) ==
  IF remaining = {} THEN S
  ELSE LET ready == {c \in remaining : RbDeps(R0, tv, c) \cap remaining = {}}
           c == IF ready # {} THEN Min(ready) ELSE Min(remaining)
       IN RbLoop(RbStep(S, c, empty), R0, tv, remaining \ {c}, empty)

(* update_local_bookmarks: one merge per (bookmark, rewritten add) *)
RbChangedBm(R) ==      \* <<bookmark, old id>> in name order, then term order
  LET RECURSIVE Terms(_, _)
      Terms(i, j) == IF i > Len(R.view.bm) THEN <<>>
                     ELSE IF j > Len(R.view.bm[i]) THEN Terms(i + 1, 1)
                     ELSE (IF Odd(j) /\ R.view.bm[i][j] \in DOMAIN R.M
                           THEN <<<<i, R.view.bm[i][j]>>>> ELSE <<>>) \o Terms(i, j + 2)
  IN Terms(1, 1)
RECURSIVE RbBmLoop(_, _, _, _)
RbBmLoop(R, Mfix, todo, del) ==
  IF todo = <<>> THEN R
  ELSE LET i == todo[1][1]  old == todo[1][2]
           newT == IF del /\ Mfix[old].k = "ab" THEN <<Absent>> ELSE Intersperse(ResolveAll(Mfix, old), old)
           t == MergeRefTargets(R.par, R.view.bm[i], <<old>>, newT)
       IN RbBmLoop([R EXCEPT !.view.bm[i] = t, !.view.heads = R.view.heads \cup AddIds(t)],
                   Mfix, Tail(todo), del)
(* update_wc_commits *)
RECURSIVE RbWcLoop(_, _, _, _)
RbWcLoop(S, Mfix, todo, recreated) ==     \* todo: <<w, old>>; recreated: old -> fresh commit
  IF todo = <<>> THEN S
  ELSE LET w == todo[1][1]  old == todo[1][2]  R == S.R
           abandonedOld == R.M[old].k = "ab"
           news == ResolveAll(Mfix, old)
       IN IF ~abandonedOld THEN
               IF news[1] = Root THEN [S EXCEPT !.panic = TRUE]
               ELSE RbWcLoop([S EXCEPT !.R = EditWc(R, w, news[1])], Mfix, Tail(todo), recreated)
          ELSE IF old \in DOMAIN recreated THEN
               RbWcLoop([S EXCEPT !.R = EditWc(R, w, recreated[old])], Mfix, Tail(todo), recreated)
          ELSE LET n == Len(R.par) + 1
                   R1 == AddCommit(R, news, FreshChg(R), 0, TRUE, <<>>)
               IN RbWcLoop([S EXCEPT !.R = EditWc(R1, w, n)], Mfix, Tail(todo), (old :> n) @@ recreated)
(* update_heads *)
RbHeads(R) ==
  LET old == DOMAIN R.M \cap AncOf(R.par, R.view.heads)
      toAdd == UNION {ParentSet(R.par, c) : c \in old} \ old
  IN [R EXCEPT !.view.heads = NormalizeHeads(R.par, (R.view.heads \ DOMAIN R.M) \cup toAdd)]

(* the whole call; result [R, rb, panic]; R.M is cleared *)
RebaseDescendantsRef(R0, empty, del) ==
  LET tv == RbToVisit(R0)
      S1 == RbLoop([R |-> R0, rb |-> <<>>, panic |-> FALSE], R0, tv, tv, empty)
      Mfix == S1.R.M
      R2 == RbBmLoop(S1.R, Mfix, RbChangedBm(S1.R), del)
      wcs == LET RECURSIVE W(_)
                 W(w) == IF w > Len(R2.view.wc) THEN <<>>
                         ELSE (IF R2.view.wc[w] \in DOMAIN Mfix THEN <<<<w, R2.view.wc[w]>>>> ELSE <<>>) \o W(w + 1)
             IN W(1)
      S3 == RbWcLoop([S1 EXCEPT !.R = R2], Mfix, wcs, <<>>)
      R4 == RbHeads(S3.R)
  IN [S3 EXCEPT !.R = [R4 EXCEPT !.M = <<>>]]

(* --- MutableRepo::merge / merge_view ------------------------------------ *)
MergeWc(self, base, other) ==
  IF self = other THEN self ELSE IF self = base THEN other ELSE IF other = base THEN self
  ELSE IF self = 0 \/ other = 0 THEN 0 ELSE self
(* record_rewrites(old_heads, new_heads): match removed and added commits   *)
(* by change id                                                             *)
RECURSIVE DescSeq(_)
DescSeq(S) == IF S = {} THEN <<>> ELSE LET m == Max(S) IN <<m>> \o DescSeq(S \ {m})
RecordRewrites(R, oldH, newH) ==
  LET removed == AncOf(R.par, oldH) \ AncOf(R.par, newH)
      added == AncOf(R.par, newH) \ AncOf(R.par, oldH)
      News(o) == {n \in added : R.chg[n] = R.chg[o]}
      Rec(o) == IF News(o) = {} THEN [k |-> "ab", n |-> R.par[o]]
                ELSE IF Cardinality(News(o)) = 1 THEN [k |-> "rw", n |-> DescSeq(News(o))]
                ELSE [k |-> "dv", n |-> DescSeq(News(o))]
  IN [R EXCEPT !.M = [o \in removed |-> Rec(o)] @@ R.M]
RECURSIVE MergeBmLoop(_, _, _, _)
MergeBmLoop(R, base, other, i) ==
  IF i > Len(R.view.bm) THEN R
  ELSE IF base.bm[i] = other.bm[i] THEN MergeBmLoop(R, base, other, i + 1)
  ELSE LET t == MergeRefTargets(R.par, R.view.bm[i], base.bm[i], other.bm[i]) IN
       MergeBmLoop([R EXCEPT !.view.bm[i] = t, !.view.heads = R.view.heads \cup AddIds(t)], base, other, i + 1)
MergeViewRef(R, base, other) ==
  LET ownH == NormalizeHeads(R.par, R.view.heads)
      R1 == [R EXCEPT !.view.heads = ownH,
                      !.view.wc = [w \in DOMAIN R.view.wc |->
                                     IF base.wc[w] = other.wc[w] THEN R.view.wc[w]
                                     ELSE MergeWc(R.view.wc[w], base.wc[w], other.wc[w])]]
      R2 == RecordRewrites(RecordRewrites(R1, base.heads, ownH), base.heads, other.heads)
      R3 == [R2 EXCEPT !.view.heads = R2.view.heads \cup (other.heads \ base.heads)]
  IN MergeBmLoop(R3, base, other, 1)

(* --- walk_predecessors ---------------------------------------------------- *)
(* ops visited newest first (op ids are topological); in each op the        *)
(* commits to visit that the op has a record for are replaced by their      *)
(* predecessors and emitted successors-first                                *)
RECURSIVE WalkOp(_, _, _, _)
WalkOp(opPreds, toVisit, i, emitted) ==      \* visit_op: returns [tv, emit]
  IF i > Len(toVisit) THEN [tv |-> toVisit, emit |-> emitted]
  ELSE LET c == toVisit[i] IN
       IF c \in DOMAIN opPreds THEN
            IF c \in ToSet(emitted)
            THEN WalkOp(opPreds, SubSeq(toVisit, 1, i - 1) \o SubSeq(toVisit, i + 1, Len(toVisit)), i, emitted)
            ELSE WalkOp(opPreds, SubSeq(toVisit, 1, i - 1) \o opPreds[c] \o SubSeq(toVisit, i + 1, Len(toVisit)),
                        i, Append(emitted, c))
       ELSE WalkOp(opPreds, toVisit, i + 1, emitted)
(* emitted commits of one op in reverse topological order of its records    *)
RECURSIVE TopoEmit(_, _)
TopoEmit(opPreds, S) ==
  IF S = {} THEN <<>>
  ELSE LET tops == {c \in S : ~\E d \in S : d # c /\ c \in PredClosure(opPreds, {d})}
           c == Min(tops)
       IN <<c>> \o TopoEmit(opPreds, S \ {c})
RECURSIVE WalkRef(_, _, _)
WalkRef(opsPreds, opOrder, toVisit) ==       \* opOrder: ops newest first
  IF toVisit = <<>> THEN <<>>
  ELSE IF opOrder = <<>> THEN toVisit
  ELSE LET r == WalkOp(opsPreds[opOrder[1]], toVisit, 1, <<>>) IN
       TopoEmit(opsPreds[opOrder[1]], ToSet(r.emit)) \o WalkRef(opsPreds, Tail(opOrder), r.tv)

-----------------------------------------------------------------------------
(*                      Part 3 - STATE MACHINE                              *)
(* One action per public mutation of MutableRepo / Transaction / RepoLoader.*)
(* A transaction may start from ANY operation, which is how concurrent      *)
(* operations arise (jj-lib transactions are independent in-memory objects; *)
(* only the order of their commits matters).                                *)
CONSTANTS MaxCommits, MaxOps, MaxActs,
          EmptyPolicies,      \* subset of {"keep", "all"}
          AllowFinding,       \* FALSE: stay off the two known C11 findings' shapes
          Bug                 \* "none", or a seeded design bug (negative configs)

VARIABLES par, chg, dsc, emp,     \* all commits ever written (sequences indexed by commit)
          ops,                    \* operations: [parents, view, preds]
          opHeads,                \* published operation heads
          tx,                     \* the transaction in progress
          aux                     \* what the last action did (for the action-level contracts)
vars == <<par, chg, dsc, emp, ops, opHeads, tx, aux>>

RootView == [heads |-> {Root}, bm |-> <<<<Absent>>, <<Absent>>>>, wc |-> <<0, 0>>]
NoTx == [active |-> FALSE, view |-> RootView, M |-> <<>>, preds |-> <<>>, parents |-> <<>>,
         acts |-> 0, created |-> {}, pending |-> {}]
NoAux == [k |-> "none"]

Init ==
  /\ par = <<<<>>>> /\ chg = <<0>> /\ dsc = <<0>> /\ emp = <<TRUE>>
  /\ ops = <<[parents |-> <<>>, view |-> RootView, preds |-> <<>>]>>
  /\ opHeads = {1} /\ tx = NoTx /\ aux = NoAux

CurR == [par |-> par, chg |-> chg, dsc |-> dsc, emp |-> emp,
         view |-> tx.view, M |-> tx.M, preds |-> tx.preds]
(* write a repository state back; created/pending bookkeeping for the contracts *)
Put(R, newPending, a) ==
  /\ par' = R.par /\ chg' = R.chg /\ dsc' = R.dsc /\ emp' = R.emp
  /\ tx' = [tx EXCEPT !.view = R.view, !.M = R.M, !.preds = R.preds, !.acts = @ + 1,
                      !.created = @ \cup ((Len(par) + 1)..Len(R.par)),
                      !.pending = @ \cup newPending]
  /\ aux' = a
  /\ UNCHANGED <<ops, opHeads>>

Vis == AncOf(par, tx.view.heads)
CanAct == tx.active /\ tx.acts < MaxActs
Room(k) == Len(par) + k <= MaxCommits
(* commits that will descend from k once the pending records are applied    *)
RECURSIVE FutureDesc(_)
FutureDesc(S) ==
  LET next == S \cup {c \in 1..Len(par) : ParentSet(par, c) \cap S # {}}
                \cup {k \in DOMAIN tx.M : ToSet(tx.M[k].n) \cap S # {}}
  IN IF next = S THEN S ELSE FutureDesc(next)

StartTx(o) ==
  /\ ~tx.active /\ Len(ops) < MaxOps /\ o \in 1..Len(ops)
  /\ tx' = [NoTx EXCEPT !.active = TRUE, !.view = ops[o].view, !.parents = <<o>>]
  /\ aux' = NoAux
  /\ UNCHANGED <<par, chg, dsc, emp, ops, opHeads>>

(* new_commit(parents, tree).write(): e = empty tree and no description *)
NewCommit(ps, e) ==
  /\ CanAct /\ Room(1)
  /\ Put(AddCommit(CurR, ps, FreshChg(CurR), IF e THEN 0 ELSE FreshDsc(CurR), e, <<>>), {}, NoAux)
(* commits the transaction's index knows: everything its past operations saw *)
(* or recorded, plus what it created itself                                  *)
KnownCommits ==
  LET RECURSIVE A(_)
      A(S) == LET P == UNION {ToSet(ops[x].parents) : x \in S} IN IF P \subseteq S THEN S ELSE A(S \cup P)
  IN tx.created \cup UNION {DOMAIN ops[o].preds \cup Visible(par, ops[o].view.heads) : o \in A(ToSet(tx.parents))}
(* hidden commits (abandoned / rewritten away earlier) can be built upon:    *)
(* `jj new <hidden commit>` makes them reachable again                       *)
HiddenKnown == ((KnownCommits \ Vis) \ DOMAIN tx.M) \ {Root}
NewCommitArgs ==
  LET hs == {h \in NormalizeHeads(par, tx.view.heads) : h # Root} IN
  {<<p>> : p \in Vis \cup HiddenKnown} \cup
  {pq \in hs \X hs : pq[1] < pq[2]} \cup
  {hq \in HiddenKnown \X hs : ~IsAncestor(par, hq[1], hq[2]) /\ ~IsAncestor(par, hq[2], hq[1])}

(* rewrite_commit(x).set_description(fresh)[.set_parents(np)].write() *)
RewriteCommit(x, np) ==
  /\ CanAct /\ Room(1)
  /\ x \in Vis \ {Root} /\ x \notin DOMAIN tx.M
  /\ LET n == Len(par) + 1
         R1 == AddCommit(CurR, np, chg[x], FreshDsc(CurR), emp[x],
                         IF Bug = "nopred" THEN <<>> ELSE <<x>>)
     IN Put([R1 EXCEPT !.M = (x :> [k |-> "rw", n |-> <<n>>]) @@ R1.M], {<<x, n>>}, NoAux)
(* new parents: visible, not a (future) descendant, no pending record, and *)
(* not below another commit of a change that moves along (the model's      *)
(* trees are per-change unique files: a copy rebased onto its original     *)
(* would become empty, which the emp flags do not track)                   *)
RewriteParents(x) ==
  {par[x]} \cup
  {<<p>> : p \in {q \in (Vis \ FutureDesc({x})) \ DOMAIN tx.M :
                    \A d \in FutureDesc({x}), a \in AncOf(par, {q}) : a = Root \/ chg[a] # chg[d]}}

(* record_abandoned_commit(x) *)
Abandon(x) ==
  /\ CanAct
  /\ x \in Vis \ {Root} /\ x \notin DOMAIN tx.M
  /\ Put([CurR EXCEPT !.M = (x :> [k |-> "ab", n |-> par[x]]) @@ tx.M], {}, NoAux)

(* two rewrite_commit(x) + set_divergent_rewrite(x, [n, n+1]) *)
Divergent(x) ==
  /\ CanAct /\ Room(2)
  /\ x \in Vis \ {Root} /\ x \notin DOMAIN tx.M
  /\ LET n == Len(par) + 1
         R1 == AddCommit(CurR, par[x], chg[x], FreshDsc(CurR), emp[x], <<x>>)
         R2 == AddCommit(R1, par[x], chg[x], FreshDsc(R1), emp[x], <<x>>)
     IN Put([R2 EXCEPT !.M = (x :> [k |-> "dv", n |-> <<n, n + 1>>]) @@ R2.M], {<<x, n>>, <<x, n + 1>>}, NoAux)

(* set_local_bookmark_target(b_i, normal(c) | absent) *)
SetBookmark(i, t) ==
  /\ CanAct /\ t # tx.view.bm[i]
  /\ Put([CurR EXCEPT !.view.bm[i] = t,
                      !.view.heads = IF Bug = "bmhidden" THEN @ ELSE @ \cup AddIds(t)], {}, NoAux)
BookmarkArgs == {<<Absent>>} \cup {<<c>> : c \in Vis \ {Root}}

WcFree(w) == tx.view.wc[w] \notin DOMAIN tx.M     \* see the domain note in notes/repo.md
Edit(w, c) ==
  /\ CanAct /\ WcFree(w)
  /\ c \in Vis \ {Root} /\ c \notin DOMAIN tx.M /\ c # tx.view.wc[w]
  /\ Put(EditWc(CurR, w, c), {}, NoAux)
CheckOut(w, c) ==
  /\ CanAct /\ Room(1) /\ WcFree(w)
  /\ c \in Vis /\ c \notin DOMAIN tx.M
  /\ LET n == Len(par) + 1 IN
     Put(EditWc(AddCommit(CurR, <<c>>, FreshChg(CurR), 0, TRUE, <<>>), w, n), {}, NoAux)
RemoveWorkspace(w) ==
  /\ CanAct /\ WcFree(w) /\ tx.view.wc[w] # 0
  /\ LET R1 == MaybeAbandonWc(CurR, w) IN Put([R1 EXCEPT !.view.wc[w] = 0], {}, NoAux)

(* the two known findings' shapes (DESIGN 7 and notes/repo.md) *)
FindingShape(M0, rb, v0) ==
  \/ \E w \in DOMAIN v0.wc : WcRewrittenThenAbandoned(FullMap(M0, rb), v0.wc[w])
  \/ \E k \in DOMAIN M0 : \E p \in DOMAIN rb : p \in ResolveSet(M0, k) /\ p \notin ToSet(M0[k].n)

RebaseDescendants(empty, del) ==
  /\ tx.active /\ tx.M # <<>> /\ empty \in EmptyPolicies
  /\ LET R0 == CurR
         S == RebaseDescendantsRef(R0, empty, del)
         R1 == IF Bug = "nobm" THEN [S.R EXCEPT !.view.bm = R0.view.bm] ELSE S.R
         newp == {<<c, S.rb[c].n[1]>> : c \in {d \in DOMAIN S.rb : S.rb[d].k = "rw"}}
     IN /\ Len(R1.par) <= MaxCommits
        /\ AllowFinding \/ ~FindingShape(R0.M, S.rb, R0.view)
        /\ IF S.panic
           THEN /\ aux' = [k |-> "panic", call |-> "rebase"] /\ tx' = NoTx
                /\ UNCHANGED <<par, chg, dsc, emp, ops, opHeads>>
           ELSE Put(R1, newp, [k |-> "rebase", v0 |-> R0.view, M |-> R0.M, rb |-> S.rb,
                               opts |-> [empty |-> empty, del |-> del], v1 |-> R1.view,
                               nOld |-> Len(R0.par)])

(* tx.repo_mut().set_view(operation o's view): jj op restore *)
Restore(o) ==
  /\ tx.active /\ tx.acts = 0 /\ o \in 1..Len(ops) /\ ops[o].view # tx.view
  /\ LET RECURSIVE A(_)
         A(S) == LET P == UNION {ToSet(ops[x].parents) : x \in S} IN IF P \subseteq S THEN S ELSE A(S \cup P)
     IN o \in A(ToSet(tx.parents))      \* the restored operation is in the transaction's past
  /\ tx' = [tx EXCEPT !.view = ops[o].view, !.acts = MaxActs]
  /\ aux' = NoAux
  /\ UNCHANGED <<par, chg, dsc, emp, ops, opHeads>>

(* Transaction::commit: requires no pending records; heads are normalized   *)
Commit ==
  /\ tx.active /\ tx.M = <<>>
  /\ LET v == [tx.view EXCEPT !.heads = IF Bug = "nonormalize" THEN @ ELSE NormalizeHeads(par, @)]
         o == Len(ops) + 1
     IN /\ ops' = Append(ops, [parents |-> tx.parents, view |-> v, preds |-> tx.preds])
        /\ opHeads' = (opHeads \ ToSet(tx.parents)) \cup {o}
        /\ aux' = [k |-> "commit", pending |-> tx.pending, created |-> tx.created]
  /\ tx' = NoTx
  /\ UNCHANGED <<par, chg, dsc, emp>>

(* load_at_head with two heads: merge_operations([a, b]) *)
OpPar == [o \in 1..Len(ops) |-> ops[o].parents]
MergeHeads(a, b) ==
  /\ ~tx.active /\ Len(ops) < MaxOps + 1
  /\ a \in opHeads /\ b \in opHeads /\ a # b
  /\ LET gca == CommonAncestors(OpPar, {a}, {b}) IN
     /\ Cardinality(gca) = 1
     /\ LET base == ops[CHOOSE o \in gca : TRUE].view
            other == IF Bug = "dropother" THEN [ops[b].view EXCEPT !.bm = base.bm] ELSE ops[b].view
            R0 == [par |-> par, chg |-> chg, dsc |-> dsc, emp |-> emp,
                   view |-> ops[a].view, M |-> <<>>, preds |-> <<>>]
            R1 == MergeViewRef(R0, base, other)
            S == RebaseDescendantsRef(R1, "keep", FALSE)
            v == [S.R.view EXCEPT !.heads = NormalizeHeads(S.R.par, @)]
            o == Len(ops) + 1
        IN /\ Len(S.R.par) <= MaxCommits
           /\ AllowFinding \/ ~FindingShape(R1.M, S.rb, R1.view)
           /\ IF S.panic
              THEN /\ aux' = [k |-> "panic", call |-> "merge"]
                   /\ UNCHANGED <<par, chg, dsc, emp, ops, opHeads>>
              ELSE /\ par' = S.R.par /\ chg' = S.R.chg /\ dsc' = S.R.dsc /\ emp' = S.R.emp
                   /\ ops' = Append(ops, [parents |-> <<a, b>>, view |-> v, preds |-> S.R.preds])
                   /\ opHeads' = (opHeads \ {a, b}) \cup {o}
                   /\ aux' = [k |-> "merge", base |-> CHOOSE x \in gca : TRUE, a |-> a, b |-> b,
                              nOld |-> Len(par)]
  /\ tx' = NoTx

Next ==
  \/ \E o \in 1..Len(ops) : StartTx(o) \/ Restore(o)
  \/ \E ps \in NewCommitArgs, e \in BOOLEAN : NewCommit(ps, e)
  \/ \E x \in Vis : \/ \E np \in RewriteParents(x) : RewriteCommit(x, np)
                    \/ Abandon(x) \/ Divergent(x)
  \/ \E i \in 1..2 : \E t \in BookmarkArgs : SetBookmark(i, t)
  \/ \E w \in 1..2 : \/ \E c \in Vis : Edit(w, c) \/ CheckOut(w, c)
                     \/ RemoveWorkspace(w)
  \/ \E e \in EmptyPolicies, d \in BOOLEAN : RebaseDescendants(e, d)
  \/ Commit
  \/ \E a, b \in opHeads : MergeHeads(a, b)
Spec == Init /\ [][Next]_vars

(* --- invariants: the contracts of Part 1 on the machine ------------------ *)
RECURSIVE AncOpsOf(_)
AncOpsOf(S) == LET P == UNION {ToSet(ops[o].parents) : o \in S} IN
               IF P \subseteq S THEN S ELSE AncOpsOf(S \cup P)
RECURSIVE PredsOfOps(_)
PredsOfOps(S) == IF S = {} THEN <<>> ELSE LET o == Max(S) IN ops[o].preds @@ PredsOfOps(S \ {o})
LastOp == Len(ops)

InvC10 == \A o \in 1..Len(ops) : ViewOK(par, ops[o].view)
InvC11 ==
  /\ aux.k = "rebase" =>
       RebaseVerdict(par, chg, dsc, emp, aux.v0, aux.M, aux.rb, aux.opts, aux.v1, aux.nOld) = "ok"
  /\ aux.k = "commit" => PredsVerdict(ops[LastOp].preds, aux.pending, aux.created) = "ok"
InvC13 ==
  aux.k = "merge" =>
    /\ MergeVerdict(par, chg, dsc, emp, PredsOfOps(1..Len(ops)), ops[aux.base].view,
                    ops[aux.a].view, ops[aux.b].view, ops[LastOp].view, aux.nOld) = "ok"
    /\ PredsVerdict(ops[LastOp].preds, {},
                    ((aux.nOld + 1)..Len(par)) \cap Visible(par, ops[LastOp].view.heads)) = "ok"
InvC46 ==
  aux.k \in {"commit", "merge"} =>
    LET anc == AncOpsOf({LastOp})
        known == DOMAIN PredsOfOps(anc) \cup {Root}
    IN \A c \in known :
         WalkVerdict(PredsOfOps(anc), c,
                     WalkRef([o \in 1..Len(ops) |-> ops[o].preds], DescSeq(anc), <<c>>), FALSE) = "ok"
InvNoPanic == aux.k # "panic"
=============================================================================
