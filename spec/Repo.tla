-------------------------------- MODULE Repo --------------------------------
(* A model of jj-lib's repository layer: commits, views (visible heads,     *)
(* local bookmarks, working-copy pointers), transactions with rewrite       *)
(* records, rebase_descendants, committed operations, concurrent operations *)
(* and their reconciliation, predecessor (evolution) records.               *)
(* (lib/src/repo.rs MutableRepo, transaction.rs, view.rs, evolution.rs)     *)
(*                                                                          *)
(* Vocabulary                                                               *)
(*   commits are 1..Len(par); Root = 1; par[c] = ordered parents; every     *)
(*   parent id is smaller than its child (ids are handed out in creation    *)
(*   order).  chg[c] change id, dsc[c] description token (0 = empty),       *)
(*   emp[c] = "the commit's tree equals its merged parents' tree".          *)
(*   view = [heads : set, bm : <<target,...>>, wc : <<commit or 0,...>>];   *)
(*   a target is a RefTarget merge, <<0>> = no bookmark; wc 0 = no such     *)
(*   workspace.                                                             *)
(*   rewrite records  M : key -> [k : "rw"|"ab"|"dv", n : Seq(commit)]      *)
(*   (Rewritten / Abandoned(new parents) / Divergent).                      *)
(*                                                                          *)
(* Part 1  CONTRACTS  (judge; C10 ViewOK, C11 RebaseOK, C13 MergeOK,        *)
(*                     C46 WalkOK) - used by MC_Repo invariants and by      *)
(*                     Trace_Repo on recorded states of the real code.      *)
(* Part 2  REFERENCE TRANSCRIPTIONS (explain; rebase_descendants,           *)
(*                     merge_view/record_rewrites, walk_predecessors).      *)
(* Part 3  STATE MACHINE (one action per public mutation).                  *)
EXTENDS RefTarget, TLC

Root == 1
ToSet(s) == {s[i] : i \in 1..Len(s)}
Max(S) == CHOOSE x \in S : \A y \in S : y <= x
RECURSIVE SortedSeq(_)
SortedSeq(S) == IF S = {} THEN <<>> ELSE LET m == Min(S) IN <<m>> \o SortedSeq(S \ {m})
Visible(par, heads) == AncOf(par, heads)
BmAdds(v) == UNION {AddIds(v.bm[i]) : i \in DOMAIN v.bm}
WcSet(v) == {v.wc[w] : w \in DOMAIN v.wc} \ {0}
Discardable(dsc, emp, c) == emp[c] /\ dsc[c] = 0

(* fully resolved replacements of c under the records FM, and the kinds met *)
RECURSIVE ResolveSet(_, _)
ResolveSet(FM, c) ==
  IF c \notin DOMAIN FM THEN {c} ELSE UNION {ResolveSet(FM, d) : d \in ToSet(FM[c].n)}
RECURSIVE KindsOf(_, _)
KindsOf(FM, c) ==
  IF c \notin DOMAIN FM THEN {} ELSE {FM[c].k} \cup UNION {KindsOf(FM, d) : d \in ToSet(FM[c].n)}


-----------------------------------------------------------------------------
(*                        Part 1 - CONTRACTS                                *)

(* C10: a committed view has normalized heads that cover every reference.   *)
ViewVerdict(par, v) ==
  IF v.heads = {} \/ ~(v.heads \subseteq Nodes(par)) THEN "ViewOK:no-heads"
  ELSE IF v.heads # Heads(par, v.heads) THEN "ViewOK:head-is-ancestor-of-head"
  ELSE IF Root \in v.heads /\ v.heads # {Root} THEN "ViewOK:root-among-heads"
  ELSE IF ~(BmAdds(v) \subseteq Visible(par, v.heads)) THEN "ViewOK:bookmark-target-hidden"
  ELSE IF ~(WcSet(v) \subseteq Visible(par, v.heads)) THEN "ViewOK:wc-commit-hidden"
  ELSE "ok"
ViewOK(par, v) == ViewVerdict(par, v) = "ok"

(* C11.  M = the rewrite records given to rebase_descendants, rb = what it  *)
(* reported per rebased descendant (old -> [k |-> "rw", n |-> <<new>>] or   *)
(* [k |-> "ab", n |-> <<parent>>] when dropped as empty), v0/v1 = the view  *)
(* before/after, nOld = number of commits that existed before the call,     *)
(* opts = [empty |-> "keep"|"newly"|"all", del |-> BOOLEAN].                *)
FullMap(M, rb) == rb @@ M
NonDvKeys(FM) == {k \in DOMAIN FM : FM[k].k # "dv"}

RbNoOrphan(par, FM, V1) ==
  \A c \in V1 \ DOMAIN FM : \A p \in ParentSet(par, c) : p \in DOMAIN FM => FM[p].k = "dv"
RbOldHidden(par, FM, V1) ==
  LET kept == {d \in DOMAIN FM : FM[d].k = "dv" /\ \E c \in V1 \ DOMAIN FM : d \in ParentSet(par, c)}
  IN (DOMAIN FM \cap V1) \subseteq AncOf(par, kept)
RbMetadata(chg, dsc, rb, opts, nOld, V1) ==
  \A c \in DOMAIN rb :
     IF rb[c].k = "rw"
     THEN LET n == rb[c].n[1] IN n > nOld /\ chg[n] = chg[c] /\ dsc[n] = dsc[c] /\ n \in V1
     ELSE opts.empty # "keep"
RbNoLoss(M, rb, V0, V1) == \A c \in V0 \ DOMAIN M : c \in V1 \/ c \in DOMAIN rb
RbBookmarkOK(par, M, FM, opts, t0, t1) ==
  /\ AddIds(t1) \cap NonDvKeys(FM) = {}
  /\ IF AddIds(t0) \cap DOMAIN FM = {} THEN t1 = t0
     ELSE IF Normal(t0) THEN
          LET k == t0[1]  R == ResolveSet(FM, k)  kinds == KindsOf(FM, k)
              mustDel == opts.del /\ FM[k].k = "ab"
              mayDel  == opts.del /\ "ab" \in kinds
          IN IF mustDel THEN t1 = <<Absent>>
             ELSE \/ (mayDel /\ t1 = <<Absent>>)
                  \/ (AddIds(t1) = R /\ (Cardinality(R) = 1 => t1 = <<CHOOSE r \in R : TRUE>>))
     ELSE AddIds(t1) \subseteq UNION {ResolveSet(FM, a) : a \in AddIds(t0)}
RbWcOK(par, chg, dsc, emp, FM, nOld, V1, k0, k1) ==
  IF k0 = 0 \/ k0 \notin DOMAIN FM THEN k1 = k0
  ELSE LET R == ResolveSet(FM, k0)  kinds == KindsOf(FM, k0) IN
       IF "ab" \notin kinds THEN k1 \in R
       ELSE /\ k1 > nOld /\ emp[k1] /\ dsc[k1] = 0
            /\ ParentSet(par, k1) = R
            /\ \A c \in V1 \ {k1} : chg[c] # chg[k1]
RbChangeIds(chg, M, FM, V0, V1) ==
  \A c, d \in V1 \ DOMAIN FM :
     (c # d /\ chg[c] = chg[d]) =>
        \/ \E a, b \in V0 : a # b /\ chg[a] = chg[c] /\ chg[b] = chg[c]
        \/ \E k \in DOMAIN M : M[k].k = "dv" /\ chg[k] = chg[c]

(* the finding of DESIGN section 7: working copy at a commit that was       *)
(* Rewritten and whose rewrite chain ends in an Abandoned commit            *)
WcRewrittenThenAbandoned(FM, k0) ==
  k0 # 0 /\ k0 \in DOMAIN FM /\ FM[k0].k = "rw" /\ "ab" \in KindsOf(FM, k0)

RebaseVerdict(par, chg, dsc, emp, v0, M, rb, opts, v1, nOld) ==
  LET FM == FullMap(M, rb)
      V0 == Visible(par, v0.heads)
      V1 == Visible(par, v1.heads)
  IN IF ~RbNoOrphan(par, FM, V1) THEN "RebaseOK:orphan"
     ELSE IF ~RbOldHidden(par, FM, V1) THEN "RebaseOK:old-commit-visible"
     ELSE IF ~RbMetadata(chg, dsc, rb, opts, nOld, V1) THEN "RebaseOK:rebased-metadata"
     ELSE IF ~RbNoLoss(M, rb, V0, V1) THEN "RebaseOK:commit-lost"
     ELSE IF \E i \in DOMAIN v0.bm : ~RbBookmarkOK(par, M, FM, opts, v0.bm[i], v1.bm[i])
          THEN "RebaseOK:bookmark-did-not-follow"
     ELSE IF \E w \in DOMAIN v0.wc : ~RbWcOK(par, chg, dsc, emp, FM, nOld, V1, v0.wc[w], v1.wc[w])
          THEN (IF \E w \in DOMAIN v0.wc : /\ ~RbWcOK(par, chg, dsc, emp, FM, nOld, V1, v0.wc[w], v1.wc[w])
                                           /\ ~WcRewrittenThenAbandoned(FM, v0.wc[w])
                THEN "RebaseOK:wc-did-not-follow"
                ELSE "RebaseOK:wc-rewritten-then-abandoned")
     ELSE IF ~RbChangeIds(chg, M, FM, V0, V1) THEN "RebaseOK:duplicate-change-id"
     ELSE "ok"

(* C11/C46 at commit time: every rewrite made in the transaction (explicit  *)
(* or by rebase) is in the operation's predecessor records, and every       *)
(* commit created by the transaction has a record.                          *)
PredsVerdict(preds, pending, created) ==
  IF \E pr \in pending : pr[2] \notin DOMAIN preds \/ pr[1] \notin ToSet(preds[pr[2]])
    THEN "PredsOK:rewrite-without-predecessor"
  ELSE IF ~(created \subseteq DOMAIN preds) THEN "PredsOK:commit-without-record"
  ELSE "ok"

(* C13.  vb, va, vo, vm = base / self side / other side / reconciled views; *)
(* preds = predecessor records of every operation known (commit -> Seq);    *)
(* nOld = commits that existed before the reconciliation.                   *)
RECURSIVE PredClosure(_, _)
PredClosure(preds, S) ==
  LET P == UNION {ToSet(preds[c]) : c \in S \cap DOMAIN preds} IN
  IF P \subseteq S THEN S ELSE PredClosure(preds, S \cup P)
RewrittenInto(chg, preds, VM, c) ==
  {d \in VM : chg[d] = chg[c] /\ c \in PredClosure(preds, {d})}
DiscardableLeft(dsc, emp, va, vo, vm, c) ==
  /\ Discardable(dsc, emp, c)
  /\ c \notin BmAdds(vm) /\ c \notin WcSet(vm)
  /\ c \in WcSet(va) \cup WcSet(vo)
RECURSIVE ImgSet(_, _, _, _, _)
ImgSet(par, chg, preds, VM, c) ==
  IF c \in VM THEN {c}
  ELSE LET r == RewrittenInto(chg, preds, VM, c) IN
       IF r # {} THEN r ELSE UNION {ImgSet(par, chg, preds, VM, p) : p \in ParentSet(par, c)}
MgNoLoss(chg, dsc, emp, preds, va, vo, vm, VB, VA, VO, VM) ==
  \A c \in (VA \cup VO) \ VB :
     \/ c \in VM
     \/ RewrittenInto(chg, preds, VM, c) # {}
     \/ DiscardableLeft(dsc, emp, va, vo, vm, c)
MgHidden(chg, VB, VA, VO, VM) ==
  \A c \in (VB \ VA) \cup (VB \ VO) :
     \/ c \notin VM
     \/ Cardinality({d \in VA \ VB : chg[d] = chg[c]}) >= 2
     \/ Cardinality({d \in VO \ VB : chg[d] = chg[c]}) >= 2
MgBookmarkOK(par, chg, preds, VM, tb, ta, to, tm) ==
  LET Stable(t) == AddIds(t) \subseteq VM
      Img(t) == UNION {ImgSet(par, chg, preds, VM, a) : a \in AddIds(t)}
      Pushed(t) ==     \* t pushed through the other side's rewrites
        /\ AddIds(tm) \subseteq Img(t)
        /\ (AddIds(t) # {} => AddIds(tm) # {})
        /\ (Normal(t) /\ Cardinality(Img(t)) = 1) => tm = <<CHOOSE x \in Img(t) : TRUE>>
  IN IF ta = tb /\ to = tb THEN (IF Stable(tb) THEN tm = tb ELSE Pushed(tb))
     ELSE IF to = tb THEN (IF Stable(ta) THEN tm = ta ELSE Pushed(ta))
     ELSE IF ta = tb THEN (IF Stable(to) THEN tm = to ELSE Pushed(to))
     ELSE IF ta = to THEN (IF Stable(ta) THEN tm = ta ELSE Pushed(ta))
     ELSE IF Stable(ta) /\ Stable(to) THEN RefMergeOK(par, ta, tb, to, tm)
     ELSE /\ AddIds(tm) \subseteq Img(ta) \cup Img(to)
          /\ (AddIds(ta) # {} /\ AddIds(to) # {}) => AddIds(tm) # {}
MgWcOK(par, chg, dsc, emp, preds, va, vo, vm, VB, VA, VO, VM, nOld, wb, wa, wo, wm) ==
  LET WcImg(c) == IF c = 0 THEN {0}
                  ELSE IF c \in VM THEN {c}
                  ELSE IF RewrittenInto(chg, preds, VM, c) # {} THEN RewrittenInto(chg, preds, VM, c)
                  ELSE {n \in VM : n > nOld /\ emp[n] /\ dsc[n] = 0}
      StillThere(c) == \/ c = 0 \/ c \in VM \/ RewrittenInto(chg, preds, VM, c) # {}
                       \/ DiscardableLeft(dsc, emp, va, vo, vm, c)
                       \/ c \in (VB \ VA) \cup (VB \ VO)
  IN IF wo = wb THEN wm \in WcImg(wa)
     ELSE IF wa = wb THEN wm \in WcImg(wo)
     ELSE /\ wm \in WcImg(wa) \cup WcImg(wo)
          /\ StillThere(wa) /\ StillThere(wo)

MergeVerdict(par, chg, dsc, emp, preds, vb, va, vo, vm, nOld) ==
  LET VB == Visible(par, vb.heads)  VA == Visible(par, va.heads)
      VO == Visible(par, vo.heads)  VM == Visible(par, vm.heads)
  IN IF ~MgNoLoss(chg, dsc, emp, preds, va, vo, vm, VB, VA, VO, VM) THEN "MergeOK:commit-lost"
     ELSE IF ~MgHidden(chg, VB, VA, VO, VM) THEN "MergeOK:removed-commit-visible"
     ELSE IF \E i \in DOMAIN vb.bm : ~MgBookmarkOK(par, chg, preds, VM, vb.bm[i], va.bm[i], vo.bm[i], vm.bm[i])
          THEN "MergeOK:bookmark-change-lost"
     ELSE IF \E w \in DOMAIN vb.wc : ~MgWcOK(par, chg, dsc, emp, preds, va, vo, vm, VB, VA, VO, VM, nOld,
                                              vb.wc[w], va.wc[w], vo.wc[w], vm.wc[w])
          THEN "MergeOK:wc-change-lost"
     ELSE "ok"

(* C46.  preds = union of the predecessor records of the operations         *)
(* reachable from the one the walk runs at; out = the emitted commits.      *)
WalkVerdict(preds, start, out, failed) ==
  LET expected == PredClosure(preds, {start}) IN
  IF failed THEN "WalkOK:error"
  ELSE IF \E i, j \in 1..Len(out) : i # j /\ out[i] = out[j] THEN "WalkOK:commit-listed-twice"
  ELSE IF ToSet(out) # expected THEN "WalkOK:incomplete-or-extra"
  ELSE IF \E i, j \in 1..Len(out) :
            i < j /\ out[j] \in DOMAIN preds /\ out[i] \in ToSet(preds[out[j]])
       THEN "WalkOK:predecessor-before-successor"
  ELSE "ok"
=============================================================================
