SPECIFICATION MCSpec
CONSTANTS
  Repos = {"r1", "r2", "r3"}
  NumIds = 5
  MaxSteps = 12
  Emit = TRUE
  Bias = 2
  Bug = "none"
INVARIANTS InvLoadInsideRoot InvBadIdRejected InvNoSharing InvCopyKeepsContent InvMetaPointsToExisting EmitInv

CHECK_DEADLOCK FALSE
