----------------------------- MODULE MC_Grammar -----------------------------
(* Design-level checks and S->I generators for C36.  Mode selects the      *)
(* machine:                                                                 *)
(*  "sent"   all token sentences of <= MaxSent tokens (grown by Next), plus *)
(*           Samples pseudo-random sentences of SampleLen tokens (FnRand)   *)
(*  "derive" leftmost derivations of the grammar, sentences <= MaxDerive    *)
(*  "nest"   the nesting descriptors                                        *)
(*  "alias"  alias expansion as an explicit stack machine, for every alias  *)
(*           graph over the body vocabulary (or Samples pseudo-random ones) *)
EXTENDS Grammar, TLC, Json, FnRand, SequencesExt

CONSTANTS Mode, MaxSent, Samples, SampleLen, MaxDerive, Bug, Emit

VARIABLES id,            \* 0, or the index of a pseudo-random sample
          sent,          \* "sent": the token sentence
          form, langs,   \* "derive": sentential form, languages that accept it
          nest,          \* "nest": [kind, n]
          defs, expr, stack, out     \* "alias"
vars == <<id, sent, form, langs, nest, defs, expr, stack, out>>

TokenSeq == SetToSeq(Tokens)
(* sentences longer than 3 tokens are enumerated over the structural tokens *)
LongTokens == {"x", "f", "lp", "rp", "comma", "pre", "post", "inf", "inf2", "at", "colon", "str", "ustr", "sp"}

---------------------------------------------------------------------------
Id(n) == [k |-> "id", n |-> n]
Call(a) == [k |-> "call", f |-> "F", args |-> a]
Or(a, b) == [k |-> "or", a |-> a, b |-> b]
Bad == [k |-> "bad"]
Atoms == {Id("A"), Id("x"), Id("k")}
Bodies == Atoms \cup {Call(<<a>>) : a \in Atoms}
          \cup {Call(<<>>), Call(<<Id("k"), Id("k")>>), Call(<<Call(<<Id("k")>>)>>)}
          \cup {Or(Id("A"), Id("x")), Or(Id("x"), Id("A")), Or(Id("k"), Id("A")), Or(Call(<<Id("A")>>), Id("k"))}
          \cup {Bad}
Exprs == Bodies \cup {Call(<<Call(<<Id("x")>>)>>)}
Undef == [k |-> "undef"]
BodySeq == SetToSeq(Bodies \cup {Undef})
ExprSeq == SetToSeq(Exprs)
DeclSeq == <<"A", "x", "F(x)">>
MkDefs(b1, b2, b3) ==
  LET all == << [decl |-> "A", body |-> b1], [decl |-> "x", body |-> b2], [decl |-> "F(x)", body |-> b3] >>
  IN SelectSeq(all, LAMBDA d : d.body # Undef)

Frame(d, ls, todo) == [decl |-> d, locals |-> ls, todo |-> todo]
Idle == /\ sent = <<>> /\ form = <<>> /\ langs = {} /\ nest = [kind |-> "none", n |-> 0]
NoAlias == defs = <<>> /\ expr = Bad /\ stack = <<>> /\ out = "n/a"

Init ==
  CASE Mode = "sent" ->
         /\ form = <<>> /\ langs = {} /\ nest = [kind |-> "none", n |-> 0] /\ NoAlias /\ sent = <<>>
         /\ id \in 0..Samples
    [] Mode = "derive" ->
         /\ id = 0 /\ sent = <<>> /\ nest = [kind |-> "none", n |-> 0] /\ NoAlias
         /\ form = <<"E">> /\ langs = Langs
    [] Mode = "nest" ->
         /\ id = 0 /\ sent = <<>> /\ form = <<>> /\ langs = {} /\ NoAlias
         /\ \E kd \in NestKinds : \E n \in NestDepths(kd) : nest = [kind |-> kd, n |-> n]
    [] Mode = "alias" ->
         /\ sent = <<>> /\ form = <<>> /\ langs = {} /\ nest = [kind |-> "none", n |-> 0]
         /\ IF Samples = 0
            THEN /\ id = 0
                 /\ \E b1, b2, b3 \in Bodies \cup {Undef} : defs = MkDefs(b1, b2, b3)
                 /\ expr \in Exprs
            ELSE /\ id \in 1..Samples
                 /\ defs = MkDefs(Pick(BodySeq, id, 1, 1), Pick(BodySeq, id, 2, 2), Pick(BodySeq, id, 3, 3))
                 /\ expr = Pick(ExprSeq, id, 4, 4)
         /\ stack = <<Frame("top", {}, <<expr>>)>>
         /\ out = "running"

---------------------------------------------------------------------------
SentNext ==
  /\ Mode = "sent"
  /\ IF id = 0 THEN /\ Len(sent) < MaxSent
                    /\ \E t \in Tokens :
                         /\ Len(sent) >= 3 => (t \in LongTokens /\ \A i \in 1..Len(sent) : sent[i] \in LongTokens)
                         /\ sent' = Append(sent, t)
               ELSE Len(sent) < SampleLen /\ sent' = Append(sent, Pick(TokenSeq, id, Len(sent), 1))
  /\ UNCHANGED <<id, form, langs, nest, defs, expr, stack, out>>

DeriveNext ==
  /\ Mode = "derive" /\ ~IsSentence(form)
  /\ LET i == LeftmostNT(form) IN
       \E p \in Productions :
          /\ p.lhs = form[i] /\ p.langs \cap langs # {}
          /\ MinLen(Rewrite(form, i, p.rhs)) <= MaxDerive
          /\ form' = Rewrite(form, i, p.rhs)
          /\ langs' = langs \cap p.langs
  /\ UNCHANGED <<id, sent, nest, defs, expr, stack, out>>

(* the alias expander: one step of the depth-first walk *)
OnStack(d) == \E i \in 1..Len(stack) : stack[i].decl = d
Top == stack[Len(stack)]
WithTodo(todo) == [stack EXCEPT ![Len(stack)].todo = todo]
EnterStep(d, rest) ==
  IF OnStack(d) /\ Bug # "nocycle" THEN out' = "recursive" /\ stack' = stack
  ELSE /\ stack' = Append(WithTodo(rest), Frame(d, ParamsOf(d), <<BodyOf(defs, d)>>))
       /\ out' = out
AliasNext ==
  /\ Mode = "alias" /\ out = "running"
  /\ IF Top.todo = <<>>
     THEN IF Len(stack) = 1 THEN out' = "ok" /\ stack' = <<>>
                            ELSE out' = out /\ stack' = SubSeq(stack, 1, Len(stack) - 1)
     ELSE LET n == Top.todo[1]  rest == SubSeq(Top.todo, 2, Len(Top.todo)) IN
       CASE n.k = "bad" -> out' = "parse" /\ stack' = stack
         [] n.k = "id" ->
              IF n.n \notin Top.locals /\ n.n \in {"A", "x"} /\ Defined(defs, n.n)
              THEN EnterStep(n.n, rest)
              ELSE out' = out /\ stack' = WithTodo(rest)
         [] n.k = "or" -> out' = out /\ stack' = WithTodo(<<n.a, n.b>> \o rest)
         [] n.k = "call" ->
              IF ~Defined(defs, "F(x)") THEN out' = out /\ stack' = WithTodo(n.args \o rest)
              ELSE IF Len(n.args) # 1 THEN out' = "args" /\ stack' = stack
              ELSE out' = out /\ stack' = WithTodo(n.args \o <<[k |-> "enter", d |-> "F(x)"]>> \o rest)
         [] n.k = "enter" -> EnterStep(n.d, rest)
  /\ UNCHANGED <<id, sent, form, langs, nest, defs, expr>>

Next == SentNext \/ DeriveNext \/ AliasNext
Spec == Init /\ [][Next]_vars /\ WF_vars(Next)

---------------------------------------------------------------------------
(* alias machine: bounded stack, agreement with the functional reference,  *)
(* the static characterisation, termination                                *)
InvStack == \A i, j \in 1..Len(stack) : i # j => stack[i].decl # stack[j].decl
InvOutcome == (Mode = "alias" /\ out # "running") => out = RefOutcome(defs, expr)
InvStatic ==
  (Mode = "alias" /\ out # "running") =>
     /\ (out = "ok") <=> (~CycleReachable(defs, expr) /\ ~ErrorReachable(defs, expr))
     /\ (out = "recursive") => CycleReachable(defs, expr)
Terminates == <>(out # "running")

(* derivations stay inside the alphabet and the bound *)
InvDerive == Mode = "derive" => /\ MinLen(form) <= MaxDerive /\ langs # {}
                                /\ \A i \in 1..Len(form) : form[i] \in Tokens \cup NonTerminals

(* generators *)
AliasStart == Mode = "alias" /\ out = "running" /\ Len(stack) = 1 /\ stack[1].decl = "top" /\ stack[1].todo = <<expr>>
EmitInv ==
  Emit =>
    /\ (Mode = "sent" /\ (id = 0 \/ Len(sent) = SampleLen)) => PrintT(<<"CASE", ToJson([t |-> "sent", toks |-> sent])>>)
    /\ (Mode = "derive" /\ IsSentence(form)) =>
          PrintT(<<"CASE", ToJson([t |-> "derived", toks |-> form, langs |-> SetToSeq(langs)])>>)
    /\ (Mode = "nest") => PrintT(<<"CASE", ToJson([t |-> "nest", kind |-> nest.kind, n |-> nest.n])>>)
    /\ AliasStart => PrintT(<<"CASE", ToJson([t |-> "alias", defs |-> defs, expr |-> expr,
                                               model |-> RefOutcome(defs, expr)])>>)
=============================================================================
