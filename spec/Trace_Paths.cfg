SPECIFICATION Spec
CONSTANTS
  Normal = {"a", "ab", "uu"}
  Base <- MC_Base
CHECK_DEADLOCK FALSE
