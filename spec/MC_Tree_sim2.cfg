SPECIFICATION SimSpec
CONSTANTS
  LF = {0, 10}
  LD = {0, 100, 130, 110}
  LX = {0, 10}
  LY = {0}
  MaxTerms = 5
  Nested = FALSE
  Accepts = {TRUE, FALSE}
  ExcludeFinding = TRUE
  Bug = "none"
  Emit = TRUE
  EmitMin = 5
INVARIANTS InvContract EmitInv
CHECK_DEADLOCK FALSE
