SPECIFICATION Spec
CONSTANTS
  MaxCommits = 3
  MaxOps = 4
  MaxParents = 3
  MaxPerTx = 2
  AllowHide = TRUE
  Bug = "none"
INVARIANTS InvWellFormed InvGeometric InvSquashKeeps InvMergeComplete InvLevelsRule
CHECK_DEADLOCK FALSE
