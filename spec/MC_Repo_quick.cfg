SPECIFICATION SeededSpec
CONSTANTS
  MaxCommits = 7
  MaxOps = 3
  MaxActs = 1
  EmptyPolicies = {"keep", "all"}
  AllowFinding = FALSE
  Bug = "none"
INVARIANTS InvC10 InvC11 InvC13 InvC46 InvNoPanic
CHECK_DEADLOCK FALSE
