SPECIFICATION GenSpec
CONSTANTS
  MaxCommits = 11
  MaxOps = 5
  MaxActs = 3
  EmptyPolicies = {"keep", "all"}
  AllowFinding = FALSE
  Bug = "none"
  GenOps = 5
INVARIANTS EmitInv
VIEW GenView
CHECK_DEADLOCK FALSE
