SPECIFICATION Spec
CONSTANTS
  MaxLen = 7
  InitOps = 3
  WithRestore = FALSE
  Bug = "redo_any"
  Emit = FALSE
INVARIANTS InvRefines InvStackInLog InvUndoRedoInverse InvAdjacentDiffer
CHECK_DEADLOCK FALSE
