SPECIFICATION Spec
CONSTANTS
  NB = 1
  Par <- MC_Par3
  OtherOnly = {3}
  MaxSteps = 0
  MaxTerms = 5
  Emit = "none"
  FillChoices <- MC_Fill0
  Bug = "no_lease"
CONSTRAINT Small
VIEW View
INVARIANTS InvNoLostUpdate
CHECK_DEADLOCK FALSE
