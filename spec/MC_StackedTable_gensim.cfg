SPECIFICATION Spec
CONSTANTS
  Keys = {1, 2, 3, 4}
  Writers = {1, 2, 3}
  PutSets <- PS_t
  MaxSaves = 5
  MaxGets = 6
  Bug = "none"
INVARIANTS Emit
CHECK_DEADLOCK FALSE
