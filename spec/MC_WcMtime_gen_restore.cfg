SPECIFICATION Spec
CONSTANTS
  MaxClock = 1
  MaxSnaps = 2
  MaxCheckouts = 1
  MaxEdits = 1
  Variant = "lt"
  Restores = {"RestoreOld1", "RestoreOld2"}
  Emit = TRUE
INVARIANTS Inv_Seen EmitInv
CHECK_DEADLOCK FALSE
