--------------------------- MODULE MC_StackedTable ---------------------------
(* Writers over one table store: each holds a table it loaded at some time  *)
(* (possibly stale); PutSave adds fresh values for a set of keys and saves; *)
(* GetHead with divergent heads merges them in directory-listing order (a   *)
(* model nondeterminism).  Also the behaviour generator for the binding.    *)
EXTENDS StackedTable, TLC, Json

CONSTANTS Keys, Writers, PutSets, MaxSaves, MaxGets, Bug

VARIABLES heads, tbl, saved, sqentries, nv, ngets, hist
vars == <<heads, tbl, saved, sqentries, nv, ngets>>

Orders(S) == {s \in [1..Cardinality(S) -> S] : \A i, j \in 1..Cardinality(S) : s[i] = s[j] => i = j}

Init == /\ heads = {} /\ tbl = [w \in Writers |-> NoSeg]
        /\ saved = <<>> /\ sqentries = {} /\ nv = 1 /\ ngets = 0 /\ hist = <<>>

GetHead(w) ==
  /\ ngets < MaxGets
  /\ \E order \in Orders(heads) :
      LET t == IF Bug = "mergedrops" /\ Len(order) > 1 THEN order[1] ELSE GetHeadTable(order) IN
        /\ heads' = IF Bug = "mergedrops" /\ Len(order) > 1 THEN {order[1]}
                    ELSE IF Bug = "rmmerged" /\ Len(order) > 1   \* the defect repaired by the fix: commit
                         THEN HeadsAfterSave(heads, order[1], t) \ {order[i] : i \in 2..Len(order)}
                    ELSE GetHeadHeads(heads, order)
        /\ tbl' = [tbl EXCEPT ![w] = t]
        /\ sqentries' = IF Len(order) > 1 THEN sqentries \cup FoldedEntries(order[1], t) ELSE sqentries
  /\ ngets' = ngets + 1
  /\ hist' = Append(hist, [op |-> "gethead", w |-> w, ks |-> <<>>, v |-> 0])
  /\ UNCHANGED <<saved, nv>>

SetToSeq(K) == CHOOSE s \in Orders(K) : \A i, j \in 1..Cardinality(K) : i < j => s[i] < s[j]
(* fresh values nv, nv+1, ... for the keys of K in increasing key order *)
Fresh(K) == [k \in K |-> nv + Cardinality({j \in K : j < k})]

PutSave(w, K) ==
  /\ tbl[w] # NoSeg /\ Len(saved) < MaxSaves
  /\ LET puts == Fresh(K)  t == SaveIn(tbl[w], puts) IN
       /\ heads' = HeadsAfterSave(heads, tbl[w], t)
       /\ saved' = Append(saved, [w |-> w, puts |-> puts,
                                  seen |-> [k \in Keys |-> Lookup(tbl[w], k)],
                                  squashed |-> (t.parent # tbl[w]),
                                  after |-> [k \in Keys |-> Lookup(t, k)]])
       /\ tbl' = [tbl EXCEPT ![w] = t]
       /\ sqentries' = sqentries \cup FoldedEntries(tbl[w], t)
  /\ nv' = nv + Cardinality(K)
  /\ hist' = Append(hist, [op |-> "putsave", w |-> w, ks |-> SetToSeq(K), v |-> nv])
  /\ UNCHANGED ngets


Next == \E w \in Writers : GetHead(w) \/ (\E K \in PutSets : PutSave(w, K))
Spec == Init /\ [][Next]_<<vars, hist>>
View == vars

TheHead == CHOOSE h \in heads : TRUE
Look == [k \in Keys |-> Lookup(TheHead, k)]
Merged == Cardinality(heads) = 1

AllSavedFound == Merged => AllSavedFoundIn(saved, Look)
LaterWins == Merged => \A k \in Keys : LaterWinsIn(saved, Look, k)
(* every violation of LaterWins in the model has the known shape *)
LaterWinsExceptKnown ==
  Merged => \A k \in Keys : LaterWinsIn(saved, Look, k) \/ SquashHidesAncestry(sqentries, k, Look[k])
HeadsNeverLost == (Len(saved) > 0) => heads # {}
(* a writer's saved table shows its base view overlaid with its puts *)
SaveView == \A i \in 1..Len(saved) : SaveViewOK(saved[i].seen, saved[i].puts, saved[i].after, Keys)

PS_small == {{1}, {2}, {1, 2}}
PS_q == {{1}, {2, 3}, {1, 2, 3, 4}}
PS_t == {{1}, {2}, {1, 2}, {2, 3}, {1, 2, 3, 4}}

(* behaviour generator: emit the script of every maximal behaviour *)
Done == Len(saved) = MaxSaves
Emit == Done => PrintT(<<"REPLAY", ToJson(hist)>>)
=============================================================================
