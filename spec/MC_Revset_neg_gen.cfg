SPECIFICATION Spec
CONSTANTS
  Shapes = {1}
  MaxDepth = 2
  Small = FALSE
  Focus = FALSE
  Bug = "gen_hi_inclusive"
INVARIANTS InvWithinAll InvDifference InvRange InvFoldGeneration InvFoldDescendants InvHeadsRoots InvNotAncestors
CHECK_DEADLOCK FALSE
