SPECIFICATION Spec
CONSTANTS
  Mode = "sent"
  MaxSent = 3
  Samples = 2000
  SampleLen = 5
  MaxDerive = 5
  Bug = "none"
  Emit = TRUE
INVARIANTS InvStack InvOutcome InvStatic InvDerive EmitInv
CHECK_DEADLOCK FALSE
