SPECIFICATION Spec
CONSTANTS
  MaxName = 2
  MaxRef = 4
  Bug = "none"
  Emit = TRUE
INVARIANTS InvExportParse InvParseExport InvInjective EmitInv
CHECK_DEADLOCK FALSE
