SPECIFICATION Spec
CONSTANTS
  K = 2
  Kinds = {"view"}
  Emit = FALSE
  RepLevel = 2
  Bug = "legacy_drops_conflict"
INVARIANTS InvView
CHECK_DEADLOCK FALSE
