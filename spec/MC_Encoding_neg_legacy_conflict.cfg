SPECIFICATION Spec
CONSTANTS
  K = 2
  Kinds = {"view"}
  Emit = FALSE
  Bug = "legacy_drops_conflict"
INVARIANTS InvView
CHECK_DEADLOCK FALSE
