SPECIFICATION TSpec
CONSTANTS
  Repos = {"r1", "r2", "r3"}
  NumIds = 5
  Bug = "none"
CHECK_DEADLOCK FALSE
