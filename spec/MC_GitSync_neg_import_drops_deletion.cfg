SPECIFICATION Spec
CONSTANTS
  NB = 1
  Par <- MC_Par3
  GitOnly = {3}
  MaxSteps = 0
  MaxTerms = 5
  Emit = "none"
  Bug = "import_drops_deletion"
CONSTRAINT Small
VIEW View
INVARIANTS InvStep
CHECK_DEADLOCK FALSE
