-------------------------- MODULE Trace_SecureConfig --------------------------
(* Judge for C43: the harness replayed TLC-generated action sequences on real *)
(* directories with the real SecureConfig and logged, after every action,     *)
(* the projected state of the directories and what load_config returned.      *)
(* TLC re-executes the same actions on the model (the action definitions of   *)
(* SecureConfig) and compares after EVERY step.                               *)
EXTENDS SecureConfig, Json, IOUtils, TLC

Rec == ndJsonDeserialize(IOEnv.TRACE)
N == Len(Rec)
VARIABLE l
tvars == <<repos, cfg, used, last, l>>

Do(e) ==
  IF e.a = "Create" THEN Create(e.r)
  ELSE IF e.a = "Delete" THEN Delete(e.r)
  ELSE IF e.a = "Load" THEN Load(e.r)
  ELSE IF e.a = "Copy" THEN Copy(e.r, e.d)
  ELSE IF e.a = "Move" THEN Move(e.r, e.d)
  ELSE IF e.a = "Alias" THEN Alias(e.r, e.d)
  ELSE IF e.a = "WriteId" THEN WriteId(e.r, e.s)
  ELSE IF e.a = "Edit" THEN Edit(e.d, e.s)
  ELSE FALSE

(* evaluated with the primed (post-action) model state *)
Verdict(e) ==
  IF e.obs.escaped # <<>> THEN "ConfigOutsideRoot"
  ELSE IF e.obs.res = Project'.res /\ e.obs.repos = Project'.repos /\ e.obs.cfg = Project'.cfg THEN "ok"
  ELSE IF e.a # "Load" THEN "harness:fs-step"
  ELSE IF last'.case = "bad-id" THEN "BadIdRejected"
  ELSE IF last'.case = "copied" THEN "CopyGetsOwnConfig"
  ELSE "LoadMatchesModel:" \o last'.case

TInit == Init /\ l = 1
TNext ==
  \/ /\ l <= N /\ Rec[l].op = "reset"
     /\ repos' = [r \in Repos |-> NoRepo] /\ cfg' = [i \in ValidIds |-> NoCfg] /\ used' = 0 /\ last' = Quiet("init")
     /\ l' = l + 1
  \/ /\ l <= N /\ Rec[l].op = "step"
     /\ Do(Rec[l])
     /\ LET v == Verdict(Rec[l]) IN IF v = "ok" THEN TRUE ELSE PrintT(<<"BAD", l, v>>)
     /\ l' = l + 1
  \/ /\ l = N + 1
     /\ PrintT(<<"JUDGED", N>>)
     /\ l' = l + 1 /\ UNCHANGED vars
TSpec == TInit /\ [][TNext]_tvars
=============================================================================
