------------------------------ MODULE Trace_Eol ------------------------------
(* Judge for C29.  Every record is one content taken through a REAL          *)
(* check-out + snapshot (op "eol": stored -> disk -> restored) or written    *)
(* by the "user" and snapshotted (op "eolsnap": disk -> stored) under one    *)
(* working-copy.eol-conversion mode.  Contents travel as run-length lists    *)
(* [[class, n], ...] (0 text, 1 CR, 2 LF, 3 NUL).                            *)
EXTENDS Eol, Json, IOUtils, TLC

Rec == ndJsonDeserialize(IOEnv.TRACE)

VARIABLE l

R(x) == [i \in 1..Len(x) |-> Run(x[i][1], x[i][2])]

Verdict(r) ==
  IF r.op = "eol" THEN
       LET st == R(r.stored)  dk == R(r.disk)  rs == R(r.restored) IN
       IF ~(IsNormal(st) /\ IsNormal(dk) /\ IsNormal(rs)) \/ r.mode \notin Modes THEN "harness:not-normal"
       ELSE IF ~UpdateOK(r.mode, st, dk) THEN "UpdateOK"
       ELSE IF ~SnapshotOK(r.mode, dk, rs) THEN "SnapshotOK"
       ELSE IF ~RoundTripOK(r.mode, st, rs) THEN "RoundTripOK"
       ELSE "ok"
  ELSE IF r.op = "eolsnap" THEN
       LET dk == R(r.disk)  st == R(r.stored) IN
       IF ~(IsNormal(st) /\ IsNormal(dk)) \/ r.mode \notin Modes THEN "harness:not-normal"
       ELSE IF ~SnapshotOK(r.mode, dk, st) THEN "SnapshotOK"
       ELSE "ok"
  ELSE IF r.op = "panic" THEN "Panic"
  ELSE IF r.op = "domain" THEN "ok"
  ELSE "harness:unknown-op"

(* divergence from the reference transcription (P = 8192, current rules) *)
Diverges(r) ==
  IF r.op = "eol" THEN
       \/ R(r.disk) # RefUpdate(r.mode, R(r.stored))
       \/ R(r.restored) # RefSnapshot(r.mode, R(r.disk))
  ELSE IF r.op = "eolsnap" THEN R(r.stored) # RefSnapshot(r.mode, R(r.disk))
  ELSE FALSE

Init == l = 1
Next ==
  \/ /\ l <= Len(Rec)
     /\ LET v == Verdict(Rec[l]) IN
          /\ (IF v = "ok" THEN TRUE ELSE PrintT(<<"BAD", l, v>>))
          /\ (IF v = "ok" /\ Diverges(Rec[l]) THEN PrintT(<<"DIVERGES", l>>) ELSE TRUE)
     /\ l' = l + 1
  \/ /\ l = Len(Rec) + 1
     /\ PrintT(<<"JUDGED", Len(Rec)>>)
     /\ l' = l + 1
Spec == Init /\ [][Next]_l
=============================================================================
