------------------------------- MODULE Tree -------------------------------
(* jj trees and their merge (lib/src/merged_tree.rs, tree_merge.rs) and    *)
(* the rebase law built on it (lib/src/rewrite.rs).  Properties C07, C08.  *)
(*                                                                          *)
(* A tree is a function from a small path universe to values:              *)
(*     f        a top-level file                                           *)
(*     d        a top-level name that is EITHER a file-like entry           *)
(*     d/x d/y  OR a directory with the two entries x and y                *)
(* written as the record [f, d, x, y] with  d # Absent => x = y = Absent.  *)
(* Values are integer codes (TLC compares integers only with integers):    *)
(*     0            absent                                                 *)
(*     1..9         symlinks (atomic)                                      *)
(*     10*id + e    a file with content id `id` and executable bit e;      *)
(*                  id 1..9 are atomic contents, id 10+3a+b is the "slot   *)
(*                  file" whose two variable lines hold a and b (a,b in    *)
(*                  0..2) between unique anchor lines, so that its content *)
(*                  merge is the slot-wise trivial merge                   *)
(*     TreeV(x, y)  (only as the value at d) a directory holding x and y   *)
(*                                                                          *)
(* As in MergeAlgebra, CONTRACTS (what C07/C08 demand) are kept apart from *)
(* the REFERENCE TRANSCRIPTION of today's algorithm (Ref...).              *)
EXTENDS MergeAlgebra, Dag

Absent == 0
Unres  == 0 - 1                     \* "does not resolve"

IsSymlink(v) == v >= 1 /\ v <= 9
IsFile(v)    == v >= 10 /\ v < 1000
IsTreeV(v)   == v >= 1000000
FileId(v)    == v \div 10
IsExec(v)    == v % 10 = 1
MkFile(id, e) == 10 * id + (IF e THEN 1 ELSE 0)
IsSlotId(id) == id >= 10
SlotA(id)    == (id - 10) \div 3
SlotB(id)    == (id - 10) % 3
MkSlotId(a, b) == 10 + 3 * a + b
(* an empty directory does not exist: it is pruned to Absent *)
TreeV(x, y)  == IF x = Absent /\ y = Absent THEN Absent ELSE 1000000 + 1000 * x + y
TX(v)        == IF IsTreeV(v) THEN (v - 1000000) \div 1000 ELSE Absent
TY(v)        == IF IsTreeV(v) THEN v % 1000 ELSE Absent

IsTree(t) == t.d # Absent => (t.x = Absent /\ t.y = Absent)
DVal(t)   == IF t.d # Absent THEN t.d ELSE TreeV(t.x, t.y)     \* the entry named d
MkTree(fv, dv) == [f |-> fv, d |-> IF IsTreeV(dv) THEN Absent ELSE dv, x |-> TX(dv), y |-> TY(dv)]

Map(m, F(_)) == [i \in 1..Len(m) |-> F(m[i])]
Resolved(m)  == Len(m) = 1

(* trivial merge of MergeAlgebra on values that include 0 *)
Triv(m, accept) == TrivialRef([i \in 1..Len(m) |-> m[i] + 1], accept) - 1

---------------------------------------------------------------------------
(* PATH-WISE MERGE: the definition the property refers to.                 *)

(* content merge of a (simplified) all-files merge: executable bit by the  *)
(* same-change-accepting trivial rule, content by trivial merge of the ids *)
(* and else slot-wise; atomic contents that do not resolve trivially       *)
(* conflict.                                                               *)
FileMerge(s, accept) ==
  LET ex  == Triv([i \in 1..Len(s) |-> IF IsExec(s[i]) THEN 1 ELSE 0], TRUE)
      ids == [i \in 1..Len(s) |-> FileId(s[i])]
      tid == Triv(ids, accept)
  IN IF ex = Unres THEN Unres
     ELSE IF tid # Unres THEN MkFile(tid, ex = 1)
     ELSE LET sids == Simplify(ids) IN
          IF \E i \in 1..Len(sids) : ~IsSlotId(sids[i]) THEN Unres
          ELSE LET a == Triv([i \in 1..Len(sids) |-> SlotA(sids[i])], accept)
                   b == Triv([i \in 1..Len(sids) |-> SlotB(sids[i])], accept)
               IN IF a = Unres \/ b = Unres THEN Unres ELSE MkFile(MkSlotId(a, b), ex = 1)

(* the merged value of one path's entries, or Unres: trivial resolution    *)
(* first, then content merge when what is left after cancellation is files *)
PathResolve(vals, accept) ==
  LET t == Triv(vals, accept) IN
  IF t # Unres THEN t
  ELSE LET s == Simplify(vals) IN
       IF \A i \in 1..Len(s) : IsFile(s[i]) THEN FileMerge(s, accept) ELSE Unres
PathMerge(vals, accept) ==
  LET r == PathResolve(vals, accept) IN IF r # Unres THEN <<r>> ELSE vals

(* equality of path values "modulo Norm": resolve trivially if possible,   *)
(* else compare the signed multisets (= bags of adds / removes after       *)
(* simplification)                                                         *)
NormEq(a, b, accept) ==
  LET ta == Triv(a, accept)  tb == Triv(b, accept) IN
  IF ta # Unres \/ tb # Unres THEN ta = tb ELSE SameDenote(a, b)

FV(ts) == [i \in 1..Len(ts) |-> ts[i].f]
DV(ts) == [i \in 1..Len(ts) |-> DVal(ts[i])]
XV(ts) == [i \in 1..Len(ts) |-> ts[i].x]
YV(ts) == [i \in 1..Len(ts) |-> ts[i].y]

AllTreeOrAbsent(vals) == \A i \in 1..Len(vals) : vals[i] = Absent \/ IsTreeV(vals[i])

(* d is in file-versus-directory conflict: it does not resolve, and what   *)
(* is left after cancellation is neither all directories nor mergeable     *)
(* files.  Paths below d are then subsumed by the conflict at d.           *)
Clash(ts, accept) ==
  /\ PathResolve(DV(ts), accept) = Unres
  /\ ~AllTreeOrAbsent(Simplify(DV(ts)))

(* the path-wise expectation, per path, as a merge (1 term = resolved)     *)
ExpF(ts, accept) == PathMerge(FV(ts), accept)
ExpX(ts, accept) == PathMerge(XV(ts), accept)
ExpY(ts, accept) == PathMerge(YV(ts), accept)
ExpConflictPaths(ts, accept) ==
  (IF Resolved(ExpF(ts, accept)) THEN {} ELSE {"f"})
  \cup (IF Clash(ts, accept) THEN {"d"}
        ELSE (IF Resolved(ExpX(ts, accept)) THEN {} ELSE {"d/x"})
             \cup (IF Resolved(ExpY(ts, accept)) THEN {} ELSE {"d/y"}))

(* CONTRACT C07.  ts: the flattened input terms.  out: what the merged     *)
(* tree answers: pv = path_value per path, hc = has_conflict(), cf = the   *)
(* paths conflicts() yields.  Returns the name of the first clause that    *)
(* fails, "ok" if none.  (The LET definitions repeat ExpF/ExpX/ExpY/Clash/ *)
(* ExpConflictPaths so that TLC evaluates each of them once per call.)     *)
MergeVerdict(ts, accept, out) ==
  LET dv    == DV(ts)
      ef    == PathMerge(FV(ts), accept)
      dres  == PathResolve(dv, accept)
      clash == dres = Unres /\ ~AllTreeOrAbsent(Simplify(dv))
      dir   == ~clash /\ (dres = Unres \/ IsTreeV(dres))        \* d is expected to be a directory (or absent)
      ex    == PathMerge(XV(ts), accept)
      ey    == PathMerge(YV(ts), accept)
      ecp   == (IF Resolved(ef) THEN {} ELSE {"f"})
               \cup (IF clash THEN {"d"}
                     ELSE (IF Resolved(ex) THEN {} ELSE {"d/x"}) \cup (IF Resolved(ey) THEN {} ELSE {"d/y"}))
  IN
  IF ~NormEq(out.pv.f, ef, accept) THEN "PathValueF"
  ELSE IF clash /\ ~NormEq(out.pv.d, dv, accept) THEN "PathValueClash"
  ELSE IF ~clash /\ ~NormEq(out.pv.x, ex, accept) THEN "PathValueX"
  ELSE IF ~clash /\ ~NormEq(out.pv.y, ey, accept) THEN "PathValueY"
  ELSE IF ~clash /\ ~dir /\ ~NormEq(out.pv.d, <<dres>>, accept) THEN "PathValueD"
  ELSE IF dir /\ ~AllTreeOrAbsent(out.pv.d) THEN "DirectoryExpected"
  ELSE IF dir /\ Resolved(ex) /\ Resolved(ey)
          /\ ~NormEq(out.pv.d, <<TreeV(ex[1], ey[1])>>, accept) THEN "DirectoryValue"
  ELSE IF out.hc # (ecp # {}) THEN "ConflictFreeIffNoPathConflicts"
  ELSE IF out.cf # ecp THEN "ConflictPaths"
  ELSE "ok"
MergeOK(ts, accept, out) == MergeVerdict(ts, accept, out) = "ok"

(* "a merge in which one side equals the base yields the other side's tree"*)
(* is the special case ts = <<x, b, b>> / <<b, b, x>>: every path resolves *)
(* to x's value, so MergeOK forces pv = x, hc = FALSE.                      *)

---------------------------------------------------------------------------
(* REFERENCE TRANSCRIPTION of MergedTree::merge                            *)
(*   merge_no_resolve: flatten, simplify by tree id                        *)
(*   resolve: merge_trees (TreeMerger), then simplify by tree id           *)

IsPresent(vals) == ~(Len(vals) = 1 /\ vals[1] = Absent)
IsTreeMerge(vals) == IsPresent(vals) /\ AllTreeOrAbsent(vals)      \* Merge::is_tree

(* try_resolve_file_values: simplify, content-merge when all terms are     *)
(* files, otherwise hand back the ORIGINAL (unsimplified) values           *)
RefFileValues(vals, accept) ==
  LET s == Simplify(vals)
      r == IF \A i \in 1..Len(s) : IsFile(s[i]) THEN FileMerge(s, accept) ELSE Unres
  IN IF r # Unres THEN <<r>> ELSE vals

(* an entry none of whose terms is a directory *)
RefLeaf(vals, accept) ==
  LET t == Triv(vals, accept) IN IF t # Unres THEN <<t>> ELSE RefFileValues(vals, accept)

Pick(m, i) == IF Len(m) = 1 THEN m[1] ELSE m[i]

(* process_tree on the directory d (all terms directories or absent),      *)
(* into_backend_trees, and the parent's mark_completed                     *)
RefSubdir(dvals, accept) ==
  LET mx == RefLeaf(Map(dvals, TX), accept)
      my == RefLeaf(Map(dvals, TY), accept)
      w  == IF Resolved(mx) /\ Resolved(my) THEN <<TreeV(mx[1], my[1])>>
            ELSE [i \in 1..Len(dvals) |-> TreeV(Pick(mx, i), Pick(my, i))]
      t  == Triv(w, accept)
  IN IF t # Unres THEN <<t>> ELSE w

(* the entry d at the root: note the is_tree() test is on the UNSIMPLIFIED *)
(* terms (tree_merge.rs process_tree)                                      *)
RefD(dvals, accept) ==
  LET t == Triv(dvals, accept) IN
  IF t # Unres THEN <<t>>
  ELSE IF IsTreeMerge(dvals) THEN RefSubdir(dvals, accept)
  ELSE RefFileValues(dvals, accept)

RefMergeTrees(ts, accept) ==          \* tree_merge::merge_trees
  IF Len(ts) = 1 THEN ts
  ELSE LET mf == RefLeaf(FV(ts), accept)
           md == RefD(DV(ts), accept)
       IN IF Resolved(mf) /\ Resolved(md) THEN <<MkTree(mf[1], md[1])>>
          ELSE [i \in 1..Len(ts) |-> MkTree(Pick(mf, i), Pick(md, i))]

RefMerge(mm, accept) ==               \* MergedTree::merge of a merge of (possibly conflicted) trees
  LET merged == RefMergeTrees(Simplify(Flatten(mm)), accept)
  IN IF Len(merged) = 1 THEN merged ELSE Simplify(merged)

(* transcription of the observers: path_value, has_conflict, conflicts     *)
RefValue(vals, accept) == LET t == Triv(vals, accept) IN IF t # Unres THEN <<t>> ELSE vals
RefPathValue(R, accept) ==
  LET dv == RefValue(DV(R), accept)
      sub == IsTreeMerge(dv)              \* sub_tree(): a directory or an all-directory conflict
  IN [f |-> RefValue(FV(R), accept),
      d |-> dv,
      x |-> IF sub THEN RefValue(Map(dv, TX), accept) ELSE <<Absent>>,
      y |-> IF sub THEN RefValue(Map(dv, TY), accept) ELSE <<Absent>>]
RefConflicts(R, pv) ==
  IF Len(R) = 1 THEN {}
  ELSE (IF Resolved(pv.f) THEN {} ELSE {"f"})
       \cup (IF Resolved(pv.d) THEN {}
             ELSE IF IsTreeMerge(pv.d)
                  THEN (IF Resolved(pv.x) THEN {} ELSE {"d/x"}) \cup (IF Resolved(pv.y) THEN {} ELSE {"d/y"})
                  ELSE {"d"})
RefObserve(R, accept) ==
  LET pv == RefPathValue(R, accept) IN [hc |-> Len(R) > 1, pv |-> pv, cf |-> RefConflicts(R, pv)]

(* The shape of the known finding (DESIGN 7, C07): at d the file terms     *)
(* cancel and leave only directory/absent terms, but process_tree tests    *)
(* is_tree() before simplifying and therefore never recurses.              *)
FileTermsCancelLeavingTrees(ts, accept) ==
  LET s == Simplify(ts)  dv == DV(s) IN
  /\ Len(s) > 1
  /\ Triv(dv, accept) = Unres
  /\ ~IsTreeMerge(dv)
  /\ IsTreeMerge(Simplify(dv))

---------------------------------------------------------------------------
(* C08.  Rebasing a commit:  new = merge <<newBase, oldBase, old>>  where  *)
(* a base is the recursive merge of the parents (rewrite.rs).               *)

(* Leaf view of observed path values: at d only a file-like entry counts    *)
(* (a directory exists through its entries, which are judged at d/x, d/y),  *)
(* so the paths are f, "the file-like entry d", d/x, d/y.                   *)
LeafD(v) == IF IsTreeV(v) THEN Absent ELSE v
LeafView(pv) == [f |-> pv.f, d |-> Map(pv.d, LeafD), x |-> pv.x, y |-> pv.y]
(* d is in file/directory conflict: path_value hides d/x and d/y *)
Subsumes(pv) == ~Resolved(pv.d) /\ ~AllTreeOrAbsent(pv.d)

LeafPaths == {"f", "d", "x", "y"}
Get(pv, p) == IF p = "f" THEN pv.f ELSE IF p = "d" THEN pv.d ELSE IF p = "x" THEN pv.x ELSE pv.y

(* CONTRACT C08 (the two per-path laws) on the observed path values of the  *)
(* commit's tree, its old parents' merged tree, the new parents' merged     *)
(* tree and the rebased tree.                                               *)
RebaseLawsVerdict(pvOld, pvOldBase, pvNewBase, pvNew, accept) ==
  LET o == LeafView(pvOld)  ob == LeafView(pvOldBase)  nb == LeafView(pvNewBase)  n == LeafView(pvNew)
      \* a file/directory conflict at d in one of the INPUT trees: the leaf view of d is not meaningful there
      \* (directory terms count as "no file"), only f is judged; if only the rebased tree has it, f and d are
      inHidden == Subsumes(pvOld) \/ Subsumes(pvOldBase) \/ Subsumes(pvNewBase)
      Judged == IF inHidden THEN {"f"} ELSE IF Subsumes(pvNew) THEN {"f", "d"} ELSE LeafPaths
      Law1(p) == NormEq(Get(o, p), Get(ob, p), accept) => NormEq(Get(n, p), Get(nb, p), accept)
      Law2(p) == NormEq(Get(ob, p), Get(nb, p), accept) => NormEq(Get(n, p), Get(o, p), accept)
  IN IF \E p \in Judged : ~Law1(p) THEN "UnchangedPathTakesNewParents"
     ELSE IF \E p \in Judged : ~Law2(p) THEN "AgreedPathKeepsCommit"
     ELSE "ok"
(* the commit's changes and the parent change touch disjoint paths *)
DisjointChanges(pvOld, pvOldBase, pvNewBase, accept) ==
  LET o == LeafView(pvOld)  ob == LeafView(pvOldBase)  nb == LeafView(pvNewBase) IN
  /\ ~(Subsumes(pvOld) \/ Subsumes(pvOldBase) \/ Subsumes(pvNewBase))
  /\ \A p \in LeafPaths : NormEq(Get(o, p), Get(ob, p), accept) \/ NormEq(Get(ob, p), Get(nb, p), accept)

(* the same tree up to Norm (conflict terms may be permuted) *)
NormSamePV(a, b, accept) ==
  /\ NormEq(a.f, b.f, accept) /\ NormEq(a.d, b.d, accept)
  /\ NormEq(a.x, b.x, accept) /\ NormEq(a.y, b.y, accept)

(* REFERENCE TRANSCRIPTION: find_recursive_merge_commits, merge_commit_trees, *)
(* CommitRewriter::rebase.  A history G = [par, auto, tree]: commit 1 is the  *)
(* root; commit c has the ordered parents G.par[c] and either the explicit    *)
(* tree G.tree[c] (a merge of trees, usually one) or (G.auto[c]) the merged   *)
(* tree of its parents.                                                       *)
RECURSIVE SeqDesc(_)
SeqDesc(S) == IF S = {} THEN <<>>
              ELSE LET m == CHOOSE x \in S : \A y \in S : y <= x IN <<m>> \o SeqDesc(S \ {m})

RECURSIVE RecMergeCommits(_, _)
RecMergeCommits(par, ids) ==
  IF Len(ids) = 0 THEN <<1>>
  ELSE IF Len(ids) = 1 THEN <<ids[1]>>
  ELSE LET RECURSIVE Fold(_, _)
           Fold(result, pos) ==
             IF pos > Len(ids) THEN result
             ELSE LET anc == SeqDesc(CommonAncestors(par, {ids[k] : k \in 1..(pos - 1)}, {ids[pos]}))
                  IN Fold(Flatten(<<result, RecMergeCommits(par, anc), <<ids[pos]>>>>), pos + 1)
       IN Fold(<<ids[1]>>, 2)

RECURSIVE CommitTree(_, _, _)
ParentsTree(G, ps, accept) ==
  IF Len(ps) = 1 THEN CommitTree(G, ps[1], accept)
  ELSE LET cs == RecMergeCommits(G.par, ps)
       IN RefMerge([i \in 1..Len(cs) |-> CommitTree(G, cs[i], accept)], accept)
CommitTree(G, c, accept) ==
  IF G.auto[c] THEN ParentsTree(G, G.par[c], accept) ELSE G.tree[c]

ParentTrees(G, ps, accept) == [i \in 1..Len(ps) |-> CommitTree(G, ps[i], accept)]
RefRebase(G, c, newPs, accept) ==
  LET oldPs == G.par[c] IN
  IF ParentTrees(G, newPs, accept) = ParentTrees(G, oldPs, accept) THEN CommitTree(G, c, accept)   \* "skip merging"
  ELSE RefMerge(<<ParentsTree(G, newPs, accept), ParentsTree(G, oldPs, accept), CommitTree(G, c, accept)>>, accept)

(* the history after the rebase: the rewritten commit is appended *)
AfterRebase(G, c, newPs, accept) ==
  [par |-> Append(G.par, newPs), auto |-> Append(G.auto, FALSE),
   tree |-> Append(G.tree, RefRebase(G, c, newPs, accept))]
(* rebase away and back *)
RefRoundTrip(G, c, newPs, accept) ==
  RefRebase(AfterRebase(G, c, newPs, accept), Len(G.par) + 1, G.par[c], accept)

(* Shape of the C08 finding: the parents' tree lists are equal, so rebase    *)
(* skips the merge, although the merged trees of the old and the new parents *)
(* differ (they depend on the ancestry, not only on the parents' trees).     *)
ParentTreesEqualBasesDiffer(G, c, newPs, accept) ==
  /\ ParentTrees(G, newPs, accept) = ParentTrees(G, G.par[c], accept)
  /\ RefPathValue(ParentsTree(G, newPs, accept), accept) # RefPathValue(ParentsTree(G, G.par[c], accept), accept)

(* the C07 finding shape inside one of the merges a rebase performs *)
BaseMergeShape(G, ps, accept) ==
  Len(ps) >= 2 /\ LET cs == RecMergeCommits(G.par, ps)
                  IN FileTermsCancelLeavingTrees(Flatten([i \in 1..Len(cs) |-> CommitTree(G, cs[i], accept)]), accept)
RebaseMergeShape(G, c, newPs, accept) ==
  \/ \E k \in DOMAIN G.par : G.auto[k] /\ BaseMergeShape(G, G.par[k], accept)      \* while building an auto-merged commit
  \/ BaseMergeShape(G, G.par[c], accept) \/ BaseMergeShape(G, newPs, accept)
  \/ FileTermsCancelLeavingTrees(
        Flatten(<<ParentsTree(G, newPs, accept), ParentsTree(G, G.par[c], accept), CommitTree(G, c, accept)>>), accept)
=============================================================================
