SPECIFICATION Spec
CONSTANTS
  Paths = {"a", "b"}
  Contents = {2}
  MaxChange = 2
  Bug = "none"
  Emit = FALSE
  Directed = FALSE
  Shapes <- ShapesQuick
INVARIANTS InvLaws
CHECK_DEADLOCK FALSE
