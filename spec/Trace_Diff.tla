---------------------------- MODULE Trace_Diff ----------------------------
(* I->S binding for C03: every record is one diff computed by the real     *)
(* ContentDiff (harness `text diff`); TLC judges it against DiffOK and     *)
(* the determinism clause.  There is no reference alignment, hence no      *)
(* divergence.  op "bigdiff" = the LARGE-INPUT class: inputs of thousands  *)
(* of lines are judged on compact records (lengths, ranges, slice hashes). *)
EXTENDS Diff, Json, IOUtils, TLC

Rec == ndJsonDeserialize(IOEnv.TRACE)

VARIABLE l

Verdict(r) ==
  IF r.op = "diff" THEN
       IF Len(r.inp) = 0 \/ r.cmp \notin Comparisons THEN "harness:bad-record"
       ELSE IF ~WellShaped(r.inp, r.h1) THEN "WellShaped"
       ELSE IF ~Covers(r.inp, r.h1) THEN "Covers"
       ELSE IF ~MatchingEqual(r.inp, r.cmp, r.h1) THEN "MatchingEqual"
       ELSE IF ~NoEmptyHunk(r.inp, r.h1) THEN "NoEmptyHunk"
       ELSE IF ~Alternates(r.h1) THEN "Alternates"
       ELSE IF ~ContentsAreSlices(r.inp, r.h1, r.c1) THEN "ContentsAreSlices"
       ELSE IF ~Reconstructs(r.inp, r.c1) THEN "Reconstructs"
       ELSE IF r.h2 # r.h1 THEN "Deterministic"
       ELSE IF "h3" \in DOMAIN r /\ r.h3 # r.h1 THEN "DeterministicAcrossProcesses"
       ELSE "ok"
  ELSE IF r.op = "bigdiff" THEN          \* LARGE-INPUT class: compact, hash-based records
       IF Len(r.lens) = 0 THEN "harness:bad-record"
       ELSE IF ~WellShaped(r.lens, r.h1) \/ (\E h \in 1..Len(r.h1) : Len(r.h1[h].x) # Len(r.lens)) THEN "WellShaped"
       ELSE IF ~CoversLens(r.lens, r.h1) THEN "Covers"
       ELSE IF ~MatchingHashEqual(r.h1) THEN "MatchingEqual"
       ELSE IF ~NoEmptyHunk(r.lens, r.h1) THEN "NoEmptyHunk"
       ELSE IF ~Alternates(r.h1) THEN "Alternates"
       ELSE IF r.h2 # r.h1 THEN "Deterministic"
       ELSE IF "h3" \in DOMAIN r /\ r.h3 # r.h1 THEN "DeterministicAcrossProcesses"
       ELSE "ok"
  ELSE IF r.op = "panic" THEN "Panic"
  ELSE IF r.op = "domain" THEN "ok"
  ELSE "harness:unknown-op"

Init == l = 1
Next ==
  \/ /\ l <= Len(Rec)
     /\ LET v == Verdict(Rec[l]) IN
          (IF v = "ok" THEN TRUE ELSE PrintT(<<"BAD", l, v>>))
     /\ l' = l + 1
  \/ /\ l = Len(Rec) + 1
     /\ PrintT(<<"JUDGED", Len(Rec)>>)
     /\ l' = l + 1
Spec == Init /\ [][Next]_l
=============================================================================
