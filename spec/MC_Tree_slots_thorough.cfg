SPECIFICATION Spec
CONSTANTS
  LF = {0, 100, 130, 110, 101, 10, 160}
  LD = {0}
  LX = {0, 100, 160}
  LY = {0}
  MaxTerms = 3
  Nested = FALSE
  Accepts = {TRUE, FALSE}
  ExcludeFinding = TRUE
  Bug = "none"
  Emit = TRUE
  EmitMin = 1
INVARIANTS InvContract InvOneSideEqualsBase InvResolveIdempotent InvPathMergeDenote EmitInv
CHECK_DEADLOCK FALSE
