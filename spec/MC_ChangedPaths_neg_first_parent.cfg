SPECIFICATION Spec
CONSTANTS
  MaxCommits = 4
  MaxParents = 3
  Values = {1, 2, 3}
  Bug = "first_parent"
INVARIANTS InvSingleParent InvAgreeingParents InvFastForward InvThreeWay InvParentOrder
CHECK_DEADLOCK FALSE
