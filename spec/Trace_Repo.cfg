SPECIFICATION TraceSpec
CONSTANTS
  MaxCommits = 0
  MaxOps = 0
  MaxActs = 0
  EmptyPolicies = {}
  AllowFinding = TRUE
  Bug = "none"
CHECK_DEADLOCK FALSE
