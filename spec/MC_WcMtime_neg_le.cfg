SPECIFICATION Spec
CONSTANTS
  MaxClock = 3
  MaxSnaps = 2
  MaxCheckouts = 2
  MaxEdits = 3
  Variant = "le"
  Restores = {}
  Emit = FALSE
INVARIANTS Inv_Seen Inv_Time
VIEW View
CHECK_DEADLOCK FALSE
