SPECIFICATION Spec
CONSTANTS
  Paths <- StdPaths
  PathOrder <- StdPathOrder
  IgnoreVocab <- StdIgnoreVocab
  Bug = "none"
  MaxSteps = 5
  MaxEditRun = 2
  Acts = {"Write", "FileToDir", "CheckOut", "SetSparse", "Snapshot"}
  EditPaths <- SparseEditPaths
  Contents = {2}
  SymTargets = {"out"}
  RootIgnore = {}
  DirIgnore = {}
  TreeIds = {4}
  SparseIds = {1, 4}
  XP = "respect"
  Strict = "F9"
  Emit = FALSE
INVARIANTS Inv_C27
VIEW View
CHECK_DEADLOCK FALSE
