------------------------ MODULE WorkspaceContracts ------------------------
(* The contracts of C40 / C42 as pure operators, shared by the protocol     *)
(* state machine (Workspace.tla: invariants) and by the judge of recorded   *)
(* CLI sessions (Trace_Workspace.tla).                                      *)

(* C40: a disk state that existed when a command started and that the       *)
(* command replaced is the tree of that workspace's working-copy commit in  *)
(* some operation of the log (pre/post: disk before/after; recorded: trees  *)
(* of the workspace's working-copy commit over all operations)              *)
NoLossOK(pre, post, recorded) == post # pre => pre \in recorded

(* a command run at an operation (--at-op, --ignore-working-copy) neither   *)
(* snapshots nor updates the working copy                                   *)
AtOpOK(wcPre, wcPost, diskPre, diskPost, nSnapshotOps) ==
  wcPost = wcPre /\ diskPost = diskPre /\ nSnapshotOps = 0

(* C42: every commit that was immutable when the command started is still   *)
(* visible, under the same id, afterwards                                   *)
ImmutableKeptOK(immBefore, visibleAfter) == immBefore \subseteq visibleAfter

(* the operation log never forgets a recorded working-copy state *)
RecordedMonotoneOK(before, after) == before \subseteq after
=============================================================================
