SPECIFICATION Spec
CONSTANTS
  NB = 2
  Par <- MC_Par4
  GitOnly = {4}
  MaxSteps = 6
  MaxTerms = 5
  Emit = "done"
  Bug = "none"
CONSTRAINT Small
INVARIANTS InvStep InvConverge InvIdem EmitInv
CHECK_DEADLOCK FALSE
