SPECIFICATION Spec
CONSTANTS
  LF = {0, 10}
  LD = {0, 10}
  LX = {0, 20}
  LY = {0, 30}
  MaxTerms = 5
  Nested = FALSE
  Accepts = {TRUE, FALSE}
  ExcludeFinding = TRUE
  Bug = "none"
  Emit = TRUE
  EmitMin = 5
INVARIANTS InvContract InvResolveIdempotent EmitInv
CHECK_DEADLOCK FALSE
