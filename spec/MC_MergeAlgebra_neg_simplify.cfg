SPECIFICATION Spec
CONSTANTS
  Values = {1, 2, 3}
  MaxLen = 7
  NestValues = {1, 2}
  MaxOuter = 3
  MaxInner = 3
  Bug = "simplify"
INVARIANTS InvSimplify InvTrivial InvFlatten
CHECK_DEADLOCK FALSE
